#!/bin/bash
# Run once after a fresh restore (offline): warm the Go build cache for the checker, for
# moq and for the fixture dependencies, so the first check does not pay for it.
export GOFLAGS=-mod=mod GOPROXY=off
unset GOSUMDB GOTOOLCHAIN
set -e
W=$(mktemp -d "${TMPDIR:-/tmp}/vsetup.XXXXXX"); trap 'rm -rf "$W"' EXIT
(cd /repo && go build -o "$W/moq" .)
(cd /verif/mc && go build -o "$W/vcheck" ./cmd/vcheck)
(cd /verif/mc && go vet ./cmd/vcheck)
mkdir -p /verif/evidence
echo "setup ok"
