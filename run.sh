#!/bin/bash
# usage: run.sh <property-id> [quick|thorough]
# Rebuilds moq and the checker (which links /repo/pkg/moq) from /repo's current working
# tree, runs one check, removes all scratch data. Exit: 0 held, 1 violation, 2 harness error.
prop="$1"; tier="${2:-${VERIF_TIER:-quick}}"
export GOFLAGS=-mod=mod GOPROXY=off
unset GOSUMDB GOTOOLCHAIN
W=$(mktemp -d "${TMPDIR:-/tmp}/vcheck.XXXXXX") || exit 2
trap '[ -n "$VCHECK_KEEP" ] || rm -rf "$W"' EXIT
REPO="${VERIF_REPO:-/repo}"   # another checkout only together with VERIF_SNAPSHOT (seed detection)
(cd "$REPO" && go build -o "$W/moq" .) || { echo "HARNESS ERROR: $REPO does not build"; exit 2; }
V=/verif
if [ -n "$VERIF_SNAPSHOT" ]; then
  # background mode (not used by the manifest): work from a private copy of the framework so
  # that /verif can be edited meanwhile; evidence and replays land in the copy
  mkdir -p "$W/snap" && cp -r /verif/mc /verif/rt /verif/e2 /verif/KNOWN_FINDINGS.json "$W/snap/" || exit 2
  V="$W/snap"; export VCHECK_ROOT="$V"
  if [ "$REPO" != /repo ]; then
    sed -i "s|=> /repo|=> $REPO|" "$V/mc/go.mod" || exit 2
    export VCHECK_REPO="$REPO"
  fi
fi
(cd "$V/mc" && go build -o "$W/vcheck" ./cmd/vcheck) || { echo "HARNESS ERROR: checker does not build against /repo"; exit 2; }
mkdir -p "$W/work"
if [ "$prop" = replay ]; then
  VCHECK_MOQ="$W/moq" VCHECK_WORK="$W/work" "$W/vcheck" replay "$2"
else
  VCHECK_MOQ="$W/moq" VCHECK_WORK="$W/work" "$W/vcheck" check "$prop" --tier "$tier"
fi
