#!/usr/bin/env python3
"""detect_many.py [-j N] <seed-id or glob>... : runs tools/seed.py detect for many seeds in parallel
(each in its own scratch checkout and framework snapshot) and regenerates the seed table."""
import sys, glob, os, subprocess, concurrent.futures as cf
EXTRA = {"C16-a": ["C16", "C15"], "C16r2-b": ["C16", "C15"], "C03-b": ["C03", "C06"], "C07-b": ["C07", "C12"], "C02-a": ["C02", "C20"],
         "C07r2-a": ["C07", "C12"], "C09r2-b": ["C09", "C20"], "C16r2-a": ["C16", "C01"], "C19r2-b": ["C19", "C17"], "C20r2-a": ["C20", "C02"],
         "C16r3-a": ["C16", "C01"], "C07r3-a": ["C07", "C12"], "C07r3-b": ["C07", "C12"], "C01r3-b": ["C01", "C12"], "C14r3-b": ["C14", "C01"]}
args = sys.argv[1:]
j = 2
if args and args[0] == "-j":
    j = int(args[1]); args = args[2:]
ids = []
for a in args:
    m = sorted(os.path.basename(p.rstrip("/")) for p in glob.glob("/verif/seeded/" + a))
    ids += m if m else [a]
def run(s):
    r = subprocess.run(["python3", "/verif/tools/seed.py", "detect", s] + EXTRA.get(s, []), capture_output=True, text=True)
    out = (r.stdout + r.stderr).strip().splitlines()
    return "\n".join(l[:220] for l in out[-3:])
with cf.ThreadPoolExecutor(max_workers=j) as ex:
    for res in ex.map(run, ids):
        print(res, flush=True)
subprocess.run(["python3", "/verif/tools/seedtable.py"])
