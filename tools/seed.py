#!/usr/bin/env python3
"""seed.py verify <PROP> <a|b>   : confirm a sub-agent's seeded change in a scratch worktree
                                   (applies, builds, keeps the 48 baseline tests green, demo fails with / passes without),
                                   then store it under /verif/seeded/<PROP>-<v>/.
   seed.py detect <PROP>-<v> [checks...] : apply the stored patch to /repo, run the given checks (default: the
                                   property's own quick check), undo, and record which ones report a violation.
"""
import json, os, re, shutil, subprocess, sys, glob, time

ENV = dict(os.environ, GOFLAGS="-mod=mod", GOPROXY="off")
ENV.pop("GOSUMDB", None); ENV.pop("GOTOOLCHAIN", None)

def sh(cmd, cwd=None, timeout=1800):
    p = subprocess.run(cmd, shell=True, cwd=cwd, env=ENV, stdout=subprocess.PIPE, stderr=subprocess.STDOUT, text=True, timeout=timeout)
    return p.returncode, p.stdout

def run_demo(src, wt):
    demo = os.path.join(src, "demo")
    if os.path.exists(os.path.join(demo, "run.sh")):
        return sh("sh %s/run.sh %s" % (demo, wt), cwd=demo, timeout=900)
    tests = glob.glob(os.path.join(demo, "*_test.go"))
    if not tests:
        return 99, "no demo found"
    names = []
    copied = []
    extra_dirs = []
    tp = os.path.join(demo, "testpackages")
    if os.path.isdir(tp):
        for d in os.listdir(tp):
            dst = os.path.join(wt, "pkg/moq/testpackages", d)
            if not os.path.exists(dst):
                shutil.copytree(os.path.join(tp, d), dst); extra_dirs.append(dst)
    pkgdir = {"main": ".", "moq": "pkg/moq", "moq_test": "pkg/moq", "registry": "internal/registry", "template": "internal/template", "main_test": "."}
    for t in tests:
        m = re.search(r"^package (\w+)", open(t).read(), re.M)
        sub = pkgdir.get(m.group(1) if m else "moq", "pkg/moq")
        dst = os.path.join(wt, sub, os.path.basename(t))
        shutil.copy(t, dst); copied.append(dst)
        names += re.findall(r"^func (Test\w+)\(", open(t).read(), re.M)
    rc, out = sh("go test -vet=off -count=1 -run '^(%s)$' ./ ./pkg/moq/ ./internal/..." % "|".join(names), cwd=wt, timeout=900)
    for c in copied: os.remove(c)
    for d in extra_dirs: shutil.rmtree(d, ignore_errors=True)
    return rc, out

def verify(prop, v):
    src = "/tmp/wtout/%s/%s" % (prop, v)
    sid = "%s-%s" % (prop, v)
    wt = "/tmp/sv/%s" % sid
    sh("git -C /repo worktree remove --force %s" % wt)
    os.makedirs("/tmp/sv", exist_ok=True)
    rc, out = sh("git -C /repo worktree add -q --detach %s HEAD" % wt)
    assert rc == 0, out
    propid = prop[:3]
    res = {"id": sid, "property": propid}
    try:
        rc, out = run_demo(src, wt)
        res["demo_without_change"] = "pass" if rc == 0 else "FAIL(%d)" % rc
        if rc != 0: res["demo_without_output"] = out[-1500:]
        rc, out = sh("git apply %s/patch.diff" % src, cwd=wt)
        if rc != 0:
            rc, out = sh("git apply --3way %s/patch.diff" % src, cwd=wt)
        res["applies_to_head"] = rc == 0
        if rc != 0:
            res["apply_output"] = out[-800:]
            return res
        rc, out = sh("go build ./...", cwd=wt)
        res["builds"] = rc == 0
        rc, out = sh("/verif/tools/baseline.sh %s" % wt)
        res["baseline_tests"] = out.strip().splitlines()[0] if out.strip() else ""
        res["baseline_ok"] = rc == 0
        rc, out = run_demo(src, wt)
        res["demo_with_change"] = "fail" if rc != 0 else "PASSES(unexpected)"
        res["demo_with_output_tail"] = out[-600:]
        _, diff = sh("git diff HEAD", cwd=wt)
        ok = res["demo_without_change"] == "pass" and res["builds"] and res["baseline_ok"] and res["demo_with_change"] == "fail"
        res["confirmed"] = ok
        if ok:
            dst = "/verif/seeded/%s" % sid
            shutil.rmtree(dst, ignore_errors=True)
            os.makedirs(dst)
            open(dst + "/patch.diff", "w").write(diff)
            shutil.copytree(src + "/demo", dst + "/demo")
            meta = {"id": sid, "breaks_property": propid,
                    "what_and_needs": open(src + "/meta.txt").read().strip() if os.path.exists(src + "/meta.txt") else "",
                    "confirmed_by": {"patch applies to /repo HEAD (with fix: commits)": True, "go build ./...": True,
                                     "baseline (48 stable tests)": res["baseline_tests"], "demo without change": "passes", "demo with change": "fails"},
                    "ran": ["tools/seed.py verify %s %s" % (prop, v)], "detected_by": {}}
            json.dump(meta, open(dst + "/meta.json", "w"), indent=1)
    finally:
        sh("git -C /repo worktree remove --force %s" % wt)
    return res

def detect(sid, checks):
    """Runs the checks against a scratch worktree of /repo with the seeded patch applied, using a
    private snapshot of the framework: neither /repo nor /verif/evidence is touched."""
    dst = "/verif/seeded/%s" % sid
    meta = json.load(open(dst + "/meta.json"))
    if not checks:
        checks = [meta["breaks_property"]]
    wt = "/tmp/sv/det-%s" % sid
    sh("git -C /repo worktree remove --force %s" % wt)
    os.makedirs("/tmp/sv", exist_ok=True)
    rc, out = sh("git -C /repo worktree add -q --detach %s HEAD" % wt)
    assert rc == 0, out
    try:
        rc, out = sh("git apply %s/patch.diff" % dst, cwd=wt)
        assert rc == 0, out
        for c in checks:
            t0 = time.time()
            rc, out = sh("VERIF_SNAPSHOT=1 VERIF_REPO=%s ./run.sh %s quick" % (wt, c), cwd="/verif", timeout=3600)
            viol = [l for l in out.splitlines() if l.startswith("VIOLATION")]
            diags = [l.strip() for l in out.splitlines() if l.strip().startswith("diagnostic:")]
            capped = "exhaustive=false" in out
            meta["detected_by"][c] = {"exit": rc, "violations_printed": len(viol), "first_diagnostics": diags[:3], "wall_s": round(time.time() - t0)}
            if capped:
                meta["detected_by"][c]["capped"] = True  # an internal deadline cut the run short (machine overloaded): not a verdict
            print(sid, c, "exit", rc, len(viol), "violations", "CAPPED" if capped else "", diags[:2])
    finally:
        sh("git -C /repo worktree remove --force %s" % wt)
    json.dump(meta, open(dst + "/meta.json", "w"), indent=1)

if __name__ == "__main__":
    if sys.argv[1] == "verify":
        r = verify(sys.argv[2], sys.argv[3])
        print(json.dumps(r, indent=1))
    elif sys.argv[1] == "detect":
        detect(sys.argv[2], sys.argv[3:])
