import json,re,collections,sys
c=collections.Counter(); ex={}
for l in open(sys.argv[1]):
    v=json.loads(l)
    d=re.sub(r'\b[A-Za-z]*\d+\w*','#',v['diag'])
    d=re.sub(r'struct\{.*?\}','struct{..}',d)
    sc=[f for f in v['features'] if f.startswith('scope:')][0]
    k=(sc,d[:120])
    c[k]+=1; ex.setdefault(k,v['case'][:260])
for k,n in sorted(c.items()):
    print(n,k[0],k[1]); print('      ',ex[k].split('::')[1][:160], '|', re.search(r'\[stub.*?\]',ex[k]).group(0))
