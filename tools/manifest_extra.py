E3 = "exhaustive enumeration of all operation histories up to a depth on compiled generated mocks (reflection driver) against a list model"
CHECKS = {
 "C03": ("E3 seqhist", "model_checking", E3 + "; oracle: callback observations",
         "The moq under test generates mocks for a dynamic family of 7 interfaces (void/results, variadic, generic instance, named results, pointers/maps/funcs, embedded, cross-package) under stub x with-resets and for every compilable shape of S-type1/S-cfg/S-embed; they are compiled and ALL operation sequences up to depth 4 (thorough 5; all-shapes 2/3) are executed on fresh zero-value mocks. Per call: the configured function runs exactly once, on the caller's goroutine (checked in length-1 histories and the all-shapes leg), with reference-identical arguments incl. the variadic slice, results and panic values arrive unchanged, no other function field is invoked.",
         "Argument domain of 2 tokens per parameter; interface-typed parameters with methods are passed nil; reflection calls are assumed to behave like direct calls.", "5/C03, 4.3"),
 "C04": ("E3 seqhist", "model_checking", E3 + "; oracle: list model equality after every op",
         "Same exploration as C03; after every operation each <M>Calls() equals the per-method list model field by field (reference identity), the zero-value mock is empty, the running call is visible from inside its function and stays recorded after a panic, and every earlier snapshot still equals its capture-time contents (histories are not merged on model state, so slice-capacity aliasing after resets is reached).",
         "Whether a call refused with a nil function (no -stub) is recorded is left open, as in the property.", "5/C04, 4.3"),
 "C07": ("E3 seqhist", "model_checking", E3 + "; oracle: nil-function behaviour",
         "Same exploration; a call with a nil function field at any position of any history must, without -stub, panic with a message naming the mock type (also a custom name), the <M>Func field and the interface method and invoke nothing; with -stub it must not panic, be recorded and return reflect zero values; all-shapes leg covers every result arity/kind.",
         "Message check is substring-based (type, field, method name outside the field name).", "5/C07, 4.3"),
 "C08": ("E3 seqhist", "model_checking", E3 + "; oracle: reset semantics + reset API presence by reflection",
         "Same exploration with Reset<M>Calls and ResetCalls in the alphabet where generated: the model clears exactly the named list(s); presence of the reset methods must equal the -with-resets flag for every mock of both legs.",
         "The CLI flag plumbing (-with-resets -> WithResets) is exercised by the E5 CLI leg when built.", "5/C08, 4.3"),
 "C05": ("E4 sched", "model_checking", "stateless exhaustive exploration of thread interleavings (iterative preemption bounding) on the instrumented compiled mock under a controlled scheduler; vector-clock happens-before race detection; brute-force linearizability per method list",
         "The emitted mocks of Two{M(a int,b string)(int,error); N(xs ...int)} and Void{P(); Q(x Loc)} under stub x with-resets are instrumented after generation (sync import -> API-identical shim, access hook before every receiver-field access) and every interleaving of 1-3 threads x 1-2 operations (calls, accessor reads, both resets; MFunc returning, re-entering, resetting, blocked) with at most 2 (thorough 3) preemptions is executed. Per execution: no happens-before race, no unlock of an unlocked mutex, each method's call/return history linearizable against an atomic append-only list with snapshot and reset, no torn or lost record, snapshots are prefixes.",
         "Scheduling only at synchronisation operations is complete for race-free code; race freedom is itself checked per execution. RWMutex modelled with Go's writer preference. Function fields are not reassigned during an execution.", "5/C05, 4.4"),
 "C06": ("E4 sched", "model_checking", "same exploration as C05; oracle: deadlock (no enabled thread) in any explored schedule, incl. re-entrant and blocked callbacks",
         "Same scenarios as C05 with callback programs that call M again, read MCalls, call ResetMCalls / ResetCalls / N, or block on a gate that opens only after another thread completed an operation on the same mock; a state with unfinished threads and none enabled is a deadlock. 1-thread re-entrant scenarios decide 'lock held across the callback' under every schedule.",
         "Same trusted base as C05.", "5/C06, 4.4"),
}
ENGINES = [
 {"name": "E4 sched", "path": "/verif/rt/sched + /verif/rt/e4rt + /verif/rt/shimsync + /verif/mc/cmd/vcheck/e4.go", "serves_properties": ["C05", "C06"],
  "kind_free_text": "controlled cooperative scheduler + preemption-bounded DFS over real instrumented generated code"},
 {"name": "E3 seqhist", "path": "/verif/rt/e3rt + /verif/mc/cmd/vcheck/e3.go", "serves_properties": ["C03", "C04", "C07", "C08"],
  "kind_free_text": "stateless exhaustive exploration of operation histories on compiled mocks with a reference list model"},
]
