#!/bin/bash
# runs the quick command of every check in MANIFEST.json; prints one line per check
cd /verif
tier="${1:-quick}"
for p in $(python3 -c "import json;print(' '.join(c['property_id'] for c in json.load(open('MANIFEST.json'))['checks']))"); do
  s=$(date +%s); ./run.sh $p $tier > /tmp/runall_$p.log 2>&1; rc=$?
  echo "$p rc=$rc $(( $(date +%s)-s ))s $(grep -c '^VIOLATION' /tmp/runall_$p.log) violations; $(tail -1 /tmp/runall_$p.log | cut -c1-160)"
done
