#!/usr/bin/env python3
"""Regenerates the seeded-changes table in DESIGN.md from seeded/*/meta.json."""
import json, glob, os, re
rows = []
for d in sorted(glob.glob('/verif/seeded/*/meta.json')):
    m = json.load(open(d))
    what = m.get('what_and_needs', '').strip().splitlines()
    what = ' '.join(x.strip() for x in what[:2])[:230].replace('|', '/')
    det = m.get('detected_by', {})
    hits = [c for c, r in det.items() if r.get('violations_printed', 0) > 0]
    miss = [c for c, r in det.items() if r.get('violations_printed', 0) == 0]
    cell = ', '.join(sorted(hits)) if hits else '—'
    if miss:
        cell += ' (silent: ' + ', '.join(sorted(miss)) + ')'
    rows.append('| %s | %s | %s |' % (m['id'], what, cell))
table = '| seed | change (first lines of the author\'s note) | reported by (quick tier) |\n|---|---|---|\n' + '\n'.join(rows)
p = '/verif/DESIGN.md'
s = open(p).read()
s = re.sub(r'<!-- SEEDTABLE BEGIN -->.*<!-- SEEDTABLE END -->', '<!-- SEEDTABLE BEGIN -->\n' + table + '\n<!-- SEEDTABLE END -->', s, flags=re.S)
open(p, 'w').write(s)
print(len(rows), 'rows')
