#!/bin/bash
# validates every evidence file against the schema
for f in /verif/evidence/*.json; do python3-vt -c "import json,jsonschema,sys;jsonschema.validate(json.load(open('$f')),json.load(open('/root/.vp/EVIDENCE.schema.json')));print('ok $f')" || echo "INVALID $f"; done
