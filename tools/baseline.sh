#!/bin/bash
# Runs the repository's test suite (guard off: no hooks are compiled in) and checks that
# every test of /root/.vp/BASELINE.json's stable_pass list passes.
export GOFLAGS=-mod=mod GOPROXY=off
unset GOSUMDB GOTOOLCHAIN
cd "${1:-/repo}" || exit 2
out=$(mktemp); trap 'rm -f "$out"' EXIT
go test -json -vet=off -count=1 -timeout 25m ./... > "$out" 2>/dev/null
python3 - "$out" <<'PY'
import json,sys
want=json.load(open('/root/.vp/BASELINE.json'))['stable_pass']
res={}
for l in open(sys.argv[1]):
    try: e=json.loads(l)
    except Exception: continue
    if e.get('Test') and e.get('Action') in('pass','fail','skip'):
        res[e['Package']+'::'+e['Test']]=e['Action']
bad=[t for t in want if res.get(t)!='pass']
print("baseline: %d/%d stable tests pass"%(len(want)-len(bad),len(want)))
for t in bad: print("  NOT PASSING:",t,res.get(t))
sys.exit(1 if bad else 0)
PY
