// Package sched is the runtime of engine E4: a cooperative, fully controlled scheduler for
// a handful of logical threads, a model of Go's sync.RWMutex / sync.Mutex (including
// writer preference), a vector-clock happens-before race detector fed by access hooks, and
// a stateless depth-first explorer with iterative preemption bounding.
package sched

import (
	"bytes"
	"fmt"
	"runtime"
	"strconv"
	"strings"
)

// Cur is the scheduler of the execution in progress (one execution at a time per process).
var Cur *Scheduler

type threadState int

const (
	tsReady threadState = iota // at a scheduling point, waiting to be resumed
	tsDone
)

// pointKind says what the thread is about to do at its current scheduling point.
type pointKind int

const (
	pkStart pointKind = iota
	pkLockAnnounce
	pkLockAcquire
	pkRLock
	pkUnlock
	pkRUnlock
	pkMutexLock
	pkMutexUnlock
	pkWait // blocked until cond() holds
	pkYield
)

var pkNames = []string{"start", "Lock(announce)", "Lock(acquire)", "RLock", "Unlock", "RUnlock", "Mutex.Lock", "Mutex.Unlock", "wait", "yield"}

type thread struct {
	id     int
	resume chan struct{}
	state  threadState
	kind   pointKind
	mu     *MutexState
	cond   func() bool
	what   string
	vc     []int
	goid   int64
	opsEnd int // number of completed top-level operations (for gates)
	endVC  []int
	pc     int // scheduling points passed
}

// MutexState is the modelled state of one RWMutex or Mutex.
type MutexState struct {
	id       int
	writer   int // holder of the write lock, -1
	pending  int // thread that announced Lock and waits for readers to drain, -1
	readers  map[int]int
	relW     []int // vector clock of the last Unlock
	relR     []int // join of the clocks of RUnlocks since the last Lock
	plain    bool
	plainOwn int
}

// Point is one scheduling decision of an execution.
type Point struct {
	Enabled       []int // canonical order: running thread first if enabled, then ascending ids
	Chosen        int   // index into Enabled
	RunningEnable bool  // the thread that was running is still enabled (switching away = preemption)
	Desc          string
}

// Failure is a property violation observed in one execution.
type Failure struct {
	Kind   string // "data-race", "deadlock", "unlock-of-unlocked", "foreign-goroutine", "oracle:..."
	Detail string
}

type Scheduler struct {
	threads  []*thread
	running  int
	ctl      chan int // thread id reporting that it reached a point or finished
	prefix   []int
	Points   []Point
	Choices  []int
	Failures []Failure
	mutexes  map[any]*MutexState
	nextMu   int
	step     int
	acc      map[uintptr]*accState
	aborted  bool
	CheckG   bool
	Trace    []string
	KeepLog  bool
	mainVC   []int
	diverged bool
	OnState  func(uint64)
}

type accState struct {
	wT    int
	wC    int
	reads []int // per-thread clock of last read
	name  string
}

type abortExecution struct{}

func goid() int64 {
	var buf [64]byte
	n := runtime.Stack(buf[:], false)
	f := bytes.Fields(buf[:n])
	if len(f) < 2 {
		return -1
	}
	id, _ := strconv.ParseInt(string(f[1]), 10, 64)
	return id
}

func (s *Scheduler) fail(kind, detail string) {
	for _, f := range s.Failures {
		if f.Kind == kind {
			return
		}
	}
	s.Failures = append(s.Failures, Failure{kind, detail})
}

func (s *Scheduler) logf(format string, a ...any) {
	if s.KeepLog {
		s.Trace = append(s.Trace, fmt.Sprintf(format, a...))
	}
}

// cur returns the running thread; with CheckG it verifies that the calling goroutine is
// that thread's goroutine (a goroutine unknown to the scheduler touching the mock means
// generated code left the caller's goroutine).
func (s *Scheduler) cur() *thread {
	t := s.threads[s.running]
	if s.CheckG {
		if g := goid(); g != t.goid {
			s.fail("foreign-goroutine", fmt.Sprintf("goroutine %d touched the mock while logical thread %d (goroutine %d) was scheduled", g, t.id, t.goid))
		}
	}
	return t
}

// point parks the running thread at a scheduling point and returns when it is resumed.
func (s *Scheduler) point(kind pointKind, mu *MutexState, cond func() bool, what string) {
	t := s.cur()
	t.kind, t.mu, t.cond, t.what = kind, mu, cond, what
	t.state = tsReady
	s.ctl <- t.id
	<-t.resume
	if s.aborted {
		panic(abortExecution{})
	}
}

func (s *Scheduler) enabled(t *thread) bool {
	if t.state != tsReady {
		return false
	}
	switch t.kind {
	case pkLockAnnounce:
		return t.mu.pending == -1 && (t.mu.writer == -1)
	case pkLockAcquire:
		return len(t.mu.readers) == 0
	case pkRLock:
		return t.mu.writer == -1 && t.mu.pending == -1
	case pkMutexLock:
		return t.mu.plainOwn == -1
	case pkWait:
		return t.cond()
	}
	return true
}

func join(a, b []int) {
	for i := range b {
		if b[i] > a[i] {
			a[i] = b[i]
		}
	}
}

// Run executes body functions as logical threads under the choice prefix; after the
// prefix the default choice (index 0) is taken at every point.
func Run(prefix []int, checkG, keepLog bool, onState func(uint64), bodies []func()) *Scheduler {
	n := len(bodies)
	s := &Scheduler{OnState: onState, ctl: make(chan int), prefix: prefix, mutexes: map[any]*MutexState{}, acc: map[uintptr]*accState{}, CheckG: checkG, KeepLog: keepLog, running: -1}
	Cur = s
	s.mainVC = make([]int, n)
	for i := 0; i < n; i++ {
		t := &thread{id: i, resume: make(chan struct{}), state: tsReady, kind: pkStart, vc: make([]int, n), what: "start"}
		t.vc[i] = 1
		s.threads = append(s.threads, t)
	}
	for i := 0; i < n; i++ {
		t, body := s.threads[i], bodies[i]
		started := make(chan struct{})
		go func() {
			if checkG {
				t.goid = goid()
			}
			close(started)
			<-t.resume
			defer func() {
				if r := recover(); r != nil {
					if _, ok := r.(abortExecution); !ok {
						s.fail("panic", fmt.Sprintf("thread %d panicked: %v", t.id, r))
					}
				}
				t.state = tsDone
				s.ctl <- t.id
			}()
			if s.aborted {
				return
			}
			body()
		}()
		<-started
	}
	for {
		var en []int
		unfinished := 0
		for _, t := range s.threads {
			if t.state != tsDone {
				unfinished++
			}
		}
		if unfinished == 0 {
			break
		}
		runEn := s.running >= 0 && s.enabled(s.threads[s.running])
		if runEn {
			en = append(en, s.running)
		}
		for _, t := range s.threads {
			if t.id != s.running && s.enabled(t) {
				en = append(en, t.id)
			}
		}
		if len(en) == 0 {
			var w []string
			for _, t := range s.threads {
				if t.state != tsDone {
					w = append(w, fmt.Sprintf("thread %d blocked at %s %s", t.id, pkNames[t.kind], t.what))
				}
			}
			s.fail("deadlock", strings.Join(w, "; "))
			s.abort()
			break
		}
		choice := 0
		if len(s.Points) < len(s.prefix) {
			choice = s.prefix[len(s.Points)]
			if choice >= len(en) {
				s.diverged = true
				s.fail("harness-divergence", fmt.Sprintf("replayed choice %d out of range (%d enabled) at point %d", choice, len(en), len(s.Points)))
				s.abort()
				break
			}
		}
		next := s.threads[en[choice]]
		p := Point{Enabled: en, Chosen: choice, RunningEnable: runEn}
		if s.KeepLog {
			p.Desc = fmt.Sprintf("T%d %s %s", next.id, pkNames[next.kind], next.what)
			s.Trace = append(s.Trace, p.Desc)
		}
		s.Points = append(s.Points, p)
		s.Choices = append(s.Choices, choice)
		s.step++
		s.running = next.id
		next.pc++
		s.perform(next)
		if s.OnState != nil {
			s.OnState(s.StateKey())
		}
		next.resume <- struct{}{}
		<-s.ctl
	}
	Cur = nil
	return s
}

func (s *Scheduler) abort() {
	s.aborted = true
	for _, t := range s.threads {
		if t.state != tsDone {
			s.running = t.id
			t.resume <- struct{}{}
			<-s.ctl
		}
	}
}

// perform applies the effect of the operation the thread is parked at (it was enabled).
func (s *Scheduler) perform(t *thread) {
	m := t.mu
	switch t.kind {
	case pkLockAnnounce:
		m.pending = t.id
	case pkLockAcquire:
		m.pending = -1
		m.writer = t.id
		join(t.vc, m.relW)
		join(t.vc, m.relR)
	case pkRLock:
		m.readers[t.id]++
		join(t.vc, m.relW)
	case pkUnlock:
		if m.writer != t.id {
			s.fail("unlock-of-unlocked", fmt.Sprintf("thread %d: Unlock of a mutex it does not hold for writing", t.id))
		}
		m.writer = -1
		m.relW = append([]int{}, t.vc...)
		m.relR = make([]int, len(t.vc))
		t.vc[t.id]++
	case pkRUnlock:
		if m.readers[t.id] == 0 {
			s.fail("unlock-of-unlocked", fmt.Sprintf("thread %d: RUnlock without RLock", t.id))
		} else {
			m.readers[t.id]--
			if m.readers[t.id] == 0 {
				delete(m.readers, t.id)
			}
		}
		join(m.relR, t.vc)
		t.vc[t.id]++
	case pkMutexLock:
		m.plainOwn = t.id
		join(t.vc, m.relW)
	case pkMutexUnlock:
		if m.plainOwn != t.id {
			s.fail("unlock-of-unlocked", fmt.Sprintf("thread %d: Unlock of a Mutex it does not hold", t.id))
		}
		m.plainOwn = -1
		m.relW = append([]int{}, t.vc...)
		t.vc[t.id]++
	}
}

func (s *Scheduler) mutex(key any, plain bool) *MutexState {
	m := s.mutexes[key]
	if m == nil {
		n := len(s.threads)
		m = &MutexState{id: s.nextMu, writer: -1, pending: -1, readers: map[int]int{}, relW: make([]int, n), relR: make([]int, n), plain: plain, plainOwn: -1}
		s.nextMu++
		s.mutexes[key] = m
	}
	return m
}

// ---- hooks called by shimsync ----

func (s *Scheduler) Lock(key any) {
	m := s.mutex(key, false)
	s.point(pkLockAnnounce, m, nil, fmt.Sprintf("mu%d", m.id))
	s.point(pkLockAcquire, m, nil, fmt.Sprintf("mu%d", m.id))
}

func (s *Scheduler) Unlock(key any) {
	m := s.mutex(key, false)
	s.point(pkUnlock, m, nil, fmt.Sprintf("mu%d", m.id))
}

func (s *Scheduler) RLock(key any) {
	m := s.mutex(key, false)
	s.point(pkRLock, m, nil, fmt.Sprintf("mu%d", m.id))
}

func (s *Scheduler) RUnlock(key any) {
	m := s.mutex(key, false)
	s.point(pkRUnlock, m, nil, fmt.Sprintf("mu%d", m.id))
}

func (s *Scheduler) MLock(key any) {
	m := s.mutex(key, true)
	s.point(pkMutexLock, m, nil, fmt.Sprintf("mu%d", m.id))
}

func (s *Scheduler) MUnlock(key any) {
	m := s.mutex(key, true)
	s.point(pkMutexUnlock, m, nil, fmt.Sprintf("mu%d", m.id))
}

// WaitUntil blocks the running thread until cond holds (evaluated by the scheduler).
func (s *Scheduler) WaitUntil(what string, cond func() bool) {
	s.point(pkWait, nil, cond, what)
}

// Note adds a line to the execution log (trace mode).
func (s *Scheduler) Note(what string) { s.logf("%s", what) }

// OpDone marks the end of a top-level operation of the running thread.
func (s *Scheduler) OpDone() {
	t := s.cur()
	t.opsEnd++
	t.endVC = append([]int{}, t.vc...)
	t.vc[t.id]++
}

// OpsDone reports how many top-level operations thread id has completed.
func (s *Scheduler) OpsDone(id int) int { return s.threads[id].opsEnd }

// Me is the id of the running thread.
func (s *Scheduler) Me() int { return s.running }

// Step is the scheduler's logical clock.
func (s *Scheduler) Step() int { return s.step }

// Tick advances the logical clock (for call/return timestamps between points).
func (s *Scheduler) Tick() int { s.step++; return s.step }

// Access is the happens-before race detector's hook: the running thread reads or writes
// the memory at addr.
func (s *Scheduler) Access(addr uintptr, write bool, name string) {
	t := s.cur()
	if s.KeepLog {
		k := "R"
		if write {
			k = "W"
		}
		s.logf("T%d access %s %s", t.id, k, name)
	}
	a := s.acc[addr]
	if a == nil {
		a = &accState{wT: -1, reads: make([]int, len(s.threads)), name: name}
		s.acc[addr] = a
	}
	if a.wT >= 0 && a.wT != t.id && a.wC > t.vc[a.wT] {
		kind := "read"
		if write {
			kind = "write"
		}
		s.fail("data-race", fmt.Sprintf("%s of %s by thread %d is concurrent with a write by thread %d", kind, a.name, t.id, a.wT))
	}
	if write {
		for u, c := range a.reads {
			if u != t.id && c > t.vc[u] {
				s.fail("data-race", fmt.Sprintf("write of %s by thread %d is concurrent with a read by thread %d", a.name, t.id, u))
			}
		}
		a.wT, a.wC = t.id, t.vc[t.id]
	} else {
		a.reads[t.id] = t.vc[t.id]
	}
}

// Signal/HB edges for gates: the waiter learns what the signaller did before.
func (s *Scheduler) JoinFrom(id int) {
	if vc := s.threads[id].endVC; vc != nil {
		join(s.cur().vc, vc)
	}
}

// StateKey is a canonical abstraction of the scheduler state (per-thread progress and
// mutex states), used to count distinct states visited.
func (s *Scheduler) StateKey() uint64 {
	h := uint64(1469598103934665603)
	mix := func(x int) { h ^= uint64(x + 7); h *= 1099511628211 }
	for _, t := range s.threads {
		mix(t.pc)
		mix(int(t.state))
	}
	return h
}

// Bump advances the running thread's own clock component (used after publishing an event
// other threads may JoinFrom).
func (s *Scheduler) Bump() { t := s.cur(); t.vc[t.id]++ }
