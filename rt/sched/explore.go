package sched

import (
	"fmt"
	"sort"
)

// Instance is one fresh scenario instance: thread bodies plus a check run after the
// execution (returns a canonical outcome string and oracle failures).
type Instance struct {
	Bodies []func()
	Check  func(s *Scheduler) (outcome string, fails []Failure)
}

// Found is a failure together with the schedule that produces it.
type Found struct {
	Failure     Failure
	Choices     []int
	Preemptions int
	Log         []string
}

// Result summarises the exploration of one scenario.
type Result struct {
	Executions     int
	Transitions    int64
	States         int
	Outcomes       map[string]int
	Found          []Found
	BoundCompleted int
	Capped         bool
	HarnessError   string
}

type explorer struct {
	mk      func() Instance
	bound   int
	maxExec int
	res     *Result
	states  map[uint64]struct{}
	seen    map[string]bool
}

func preemptions(s *Scheduler, upto int) int {
	n := 0
	for j := 0; j < upto && j < len(s.Points); j++ {
		if s.Choices[j] != 0 && s.Points[j].RunningEnable {
			n++
		}
	}
	return n
}

func (e *explorer) runOnce(prefix []int, log bool) (*Scheduler, string, []Failure) {
	inst := e.mk()
	s := Run(prefix, e.res.Executions == 0, log, func(k uint64) { e.states[k] = struct{}{} }, inst.Bodies)
	var outcome string
	fails := append([]Failure{}, s.Failures...)
	if !s.aborted {
		o, f := inst.Check(s)
		outcome = o
		fails = append(fails, f...)
	} else {
		outcome = "aborted"
	}
	return s, outcome, fails
}

func (e *explorer) explore(prefix []int) {
	if e.res.Capped || e.res.HarnessError != "" {
		return
	}
	if e.res.Executions >= e.maxExec {
		e.res.Capped = true
		return
	}
	s, outcome, fails := e.runOnce(prefix, false)
	e.res.Executions++
	e.res.Transitions += int64(len(s.Points))
	e.res.Outcomes[outcome]++
	for _, f := range fails {
		if f.Kind == "harness-divergence" {
			e.res.HarnessError = f.Detail
			return
		}
		if e.seen[f.Kind] {
			continue
		}
		e.seen[f.Kind] = true
		// confirm: the same schedule must fail the same way twice more
		ok := true
		var log []string
		for k := 0; k < 2; k++ {
			s2, _, fails2 := e.runOnce(s.Choices, true)
			same := len(s2.Points) == len(s.Points)
			has := false
			for _, g := range fails2 {
				if g.Kind == f.Kind {
					has = true
				}
			}
			if !same || !has {
				ok = false
			}
			log = s2.Trace
		}
		if !ok {
			e.res.HarnessError = fmt.Sprintf("failure %q did not reproduce when its schedule was replayed", f.Kind)
			return
		}
		e.res.Found = append(e.res.Found, Found{Failure: f, Choices: append([]int{}, s.Choices...), Preemptions: preemptions(s, len(s.Points)), Log: log})
	}
	for i := len(prefix); i < len(s.Points); i++ {
		p := s.Points[i]
		if len(p.Enabled) < 2 {
			continue
		}
		cost := preemptions(s, i)
		if p.RunningEnable {
			cost++
		}
		if cost > e.bound {
			continue
		}
		for alt := 1; alt < len(p.Enabled); alt++ {
			np := make([]int, i+1)
			copy(np, s.Choices[:i])
			np[i] = alt
			e.explore(np)
		}
	}
}

// Explore enumerates every schedule of the scenario with at most bound preemptions
// (bound < 0: unbounded), iterating the bound upwards so that the first failure found has
// the fewest preemptions.
func Explore(mk func() Instance, bound, maxExec int) *Result {
	var last *Result
	seen := map[string]bool{}
	var found []Found
	lo := 0
	if bound < 0 {
		lo, bound = 1<<20, 1<<20
	}
	for b := lo; b <= bound; b++ {
		e := &explorer{mk: mk, bound: b, maxExec: maxExec, res: &Result{Outcomes: map[string]int{}}, states: map[uint64]struct{}{}, seen: seen}
		e.explore(nil)
		e.res.States = len(e.states)
		found = append(found, e.res.Found...)
		e.res.BoundCompleted = b
		if e.res.Capped && last != nil {
			last.Capped = true
			break
		}
		last = e.res
		if e.res.HarnessError != "" || e.res.Capped {
			break
		}
	}
	sort.SliceStable(found, func(i, j int) bool { return found[i].Preemptions < found[j].Preemptions })
	last.Found = found
	return last
}
