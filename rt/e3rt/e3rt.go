// Package e3rt is the runtime of engine E3 (seqhist): it drives compiled moq mocks
// through ALL operation sequences up to a depth via reflection and compares every step
// with a list model. It is linked into a driver binary together with mocks that the moq
// under test has just generated.
package e3rt

import (
	"bytes"
	"encoding/json"
	"errors"
	"flag"
	"fmt"
	"os"
	"reflect"
	"runtime"
	"runtime/pprof"
	"sort"
	"strconv"
	"strings"
	"sync"
	"sync/atomic"
	"time"
	"unsafe"
)

// MockSpec describes one generated mock type.
type MockSpec struct {
	Name     string     // unique label, e.g. "dyn_s0r1.TwoMock"
	MockType string     // the mock type's name as requested (TwoMock, CustomTwo)
	Iface    string     // the interface's name
	New      func() any // returns a pointer to a fresh zero-value mock
	Stub     bool
	Resets   bool
	Depth    int    // history depth for this mock
	Family   string // "dyn" (deep histories) or "shape" (all-shapes leg)
}

// Violation is one oracle failure.
type Violation struct {
	Prop    string   `json:"prop"`
	Oracle  string   `json:"oracle"`
	Mock    string   `json:"mock"`
	History []string `json:"history"`
	Detail  string   `json:"detail"`
}

// Report is printed as JSON by the driver.
type Report struct {
	Mocks       int            `json:"mocks"`
	Histories   int64          `json:"histories"`
	Ops         int64          `json:"ops"`
	States      int            `json:"states"`
	MaxDepth    int            `json:"max_depth"`
	Violations  []Violation    `json:"violations"`
	PerMock     map[string]int `json:"per_mock_histories"`
	Samples     [][]string     `json:"samples"`
	Skipped     []string       `json:"skipped"`
	NilPanics   int64          `json:"nil_panics_checked"`
	Callbacks   int64          `json:"callbacks_checked"`
	SnapsStable int64          `json:"snapshot_stability_checks"`
	Hung        bool           `json:"hung"`
	stateSet    map[string]struct{}
}

type methodInfo struct {
	name     string
	funcIdx  int // field index of <M>Func
	ftype    reflect.Type
	variadic bool
	hasReset bool
	// method indices in the pointer type's method set (-1 = absent)
	callIdx, callsIdx, resetIdx int
}

// behaviours of the configured function during a Call op
const (
	fbNil = iota
	fbRet
	fbPanic
	fbReadInside
	fbCallOther
	numFb
)

var fbNames = []string{"nil", "ret", "panic", "reads-own-calls", "calls-other-method"}

type opKind int

const (
	opCall opKind = iota
	opSnap
	opReset
	opResetAll
)

type op struct {
	kind   opKind
	method int
	token  int
	fb     int
}

func (o op) String(ms []*methodInfo) string {
	switch o.kind {
	case opCall:
		return fmt.Sprintf("Call %s(token %d) with %sFunc=%s", ms[o.method].name, o.token, ms[o.method].name, fbNames[o.fb])
	case opSnap:
		return fmt.Sprintf("%sCalls()", ms[o.method].name)
	case opReset:
		return fmt.Sprintf("Reset%sCalls()", ms[o.method].name)
	}
	return "ResetCalls()"
}

type record []reflect.Value

type snapshot struct {
	method int
	slice  reflect.Value
	want   []record
	at     int
}

type collector struct {
	mu    sync.Mutex
	viols []Violation
	seen  map[string]bool
	n     int
}

func (c *collector) add(v Violation) {
	c.mu.Lock()
	defer c.mu.Unlock()
	c.n++
	k := v.Prop + "|" + v.Oracle + "|" + v.Mock
	if c.seen == nil {
		c.seen = map[string]bool{}
	}
	if c.seen[k] || len(c.viols) >= 200 {
		return // first (shortest, simplest-first) history per oracle and mock is kept
	}
	c.seen[k] = true
	c.viols = append(c.viols, v)
}

// explorer state for one history
type run struct {
	spec    *MockSpec
	ms      []*methodInfo
	pv      reflect.Value // pointer to mock
	model   [][]record
	snaps   []snapshot
	hist    []op
	col     *collector
	bad     bool
	goid    int64
	serial  int
	stats   *stats
	statesM map[string]struct{}
	checkG  bool
}

type stats struct {
	ops, nilPanics, callbacks, snapChecks int64
}

func (r *run) fail(prop, oracle, detail string) {
	r.bad = true
	h := make([]string, len(r.hist))
	for i, o := range r.hist {
		h[i] = o.String(r.ms)
	}
	r.col.add(Violation{Prop: prop, Oracle: oracle, Mock: r.spec.Name, History: h, Detail: detail})
}

func discover(spec *MockSpec) ([]*methodInfo, error) {
	pv := reflect.ValueOf(spec.New())
	if pv.Kind() != reflect.Ptr || pv.Elem().Kind() != reflect.Struct {
		return nil, errors.New("New does not return a pointer to a struct")
	}
	st := pv.Elem().Type()
	var ms []*methodInfo
	for i := 0; i < st.NumField(); i++ {
		f := st.Field(i)
		if !strings.HasSuffix(f.Name, "Func") || f.Type.Kind() != reflect.Func {
			continue
		}
		name := strings.TrimSuffix(f.Name, "Func")
		m := pv.MethodByName(name)
		if !m.IsValid() {
			return nil, fmt.Errorf("field %s has no method %s", f.Name, name)
		}
		if !pv.MethodByName(name + "Calls").IsValid() {
			return nil, fmt.Errorf("no accessor %sCalls", name)
		}
		idx := func(n string) int {
			if m, ok := pv.Type().MethodByName(n); ok {
				return m.Index
			}
			return -1
		}
		ms = append(ms, &methodInfo{name: name, funcIdx: i, ftype: f.Type, variadic: f.Type.IsVariadic(),
			hasReset: pv.MethodByName("Reset" + name + "Calls").IsValid(),
			callIdx:  idx(name), callsIdx: idx(name + "Calls"), resetIdx: idx("Reset" + name + "Calls")})
	}
	sort.Slice(ms, func(i, j int) bool { return ms[i].name < ms[j].name })
	return ms, nil
}

// ---- value construction and identity ----

type funcTag struct{ id int }

var (
	funcIDMu   sync.Mutex
	lastFuncID atomic.Int64
)

func (r *run) mkValue(t reflect.Type, token int, depth int) reflect.Value {
	r.serial++
	n := token*1000 + r.serial
	switch t.Kind() {
	case reflect.Bool:
		return reflect.ValueOf(token%2 == 1).Convert(t)
	case reflect.Int, reflect.Int8, reflect.Int16, reflect.Int32, reflect.Int64:
		v := reflect.New(t).Elem()
		v.SetInt(int64(n % 100))
		return v
	case reflect.Uint, reflect.Uint8, reflect.Uint16, reflect.Uint32, reflect.Uint64, reflect.Uintptr:
		v := reflect.New(t).Elem()
		v.SetUint(uint64(n % 100))
		return v
	case reflect.Float32, reflect.Float64:
		v := reflect.New(t).Elem()
		v.SetFloat(float64(n) + 0.5)
		return v
	case reflect.Complex64, reflect.Complex128:
		v := reflect.New(t).Elem()
		v.SetComplex(complex(float64(n), 1))
		return v
	case reflect.String:
		v := reflect.New(t).Elem()
		v.SetString("s" + strconv.Itoa(n))
		return v
	case reflect.Ptr:
		p := reflect.New(t.Elem())
		if depth < 3 {
			r.fill(p.Elem(), token, depth+1)
		}
		return p
	case reflect.Struct:
		v := reflect.New(t).Elem()
		r.fill(v, token, depth+1)
		return v
	case reflect.Slice:
		v := reflect.MakeSlice(t, 2, 3)
		if depth < 3 {
			for i := 0; i < 2; i++ {
				r.fill(v.Index(i), token, depth+1)
			}
		}
		return v
	case reflect.Array:
		v := reflect.New(t).Elem()
		if depth < 3 {
			for i := 0; i < v.Len(); i++ {
				r.fill(v.Index(i), token, depth+1)
			}
		}
		return v
	case reflect.Map:
		return reflect.MakeMapWithSize(t, 1)
	case reflect.Chan:
		return reflect.MakeChan(reflect.ChanOf(reflect.BothDir, t.Elem()), 1).Convert(t)
	case reflect.Func:
		id := n
		return reflect.MakeFunc(t, func(args []reflect.Value) []reflect.Value {
			lastFuncID.Store(int64(id))
			out := make([]reflect.Value, t.NumOut())
			for i := range out {
				out[i] = reflect.Zero(t.Out(i))
			}
			return out
		})
	case reflect.Interface:
		if t.NumMethod() == 0 {
			v := reflect.New(t).Elem()
			v.Set(reflect.ValueOf(&funcTag{id: n}))
			return v
		}
		if t.Implements(errorType) && errorType.Implements(t) {
			v := reflect.New(t).Elem()
			v.Set(reflect.ValueOf(errors.New("err" + strconv.Itoa(n))))
			return v
		}
		return reflect.Zero(t) // an interface with methods we cannot implement by reflection: nil
	case reflect.UnsafePointer:
		return reflect.ValueOf(unsafe.Pointer(new(int)))
	}
	return reflect.Zero(t)
}

var errorType = reflect.TypeOf((*error)(nil)).Elem()

func (r *run) fill(v reflect.Value, token, depth int) {
	if !v.CanSet() {
		return
	}
	switch v.Kind() {
	case reflect.Struct:
		for i := 0; i < v.NumField(); i++ {
			if v.Type().Field(i).IsExported() {
				r.fill(v.Field(i), token, depth)
			}
		}
	default:
		if depth > 3 {
			return
		}
		nv := r.mkValue(v.Type(), token, depth)
		if nv.IsValid() && nv.Type().AssignableTo(v.Type()) {
			v.Set(nv)
		}
	}
}

// same reports whether b is "the very same value" as a: identity for reference kinds,
// equality for the rest.
func same(a, b reflect.Value) bool {
	if a.IsValid() != b.IsValid() {
		return false
	}
	if !a.IsValid() {
		return true
	}
	if a.Type() != b.Type() {
		return false
	}
	switch a.Kind() {
	case reflect.Ptr, reflect.Map, reflect.Chan, reflect.UnsafePointer:
		return a.Pointer() == b.Pointer()
	case reflect.Slice:
		return a.Pointer() == b.Pointer() && a.Len() == b.Len() && a.Cap() == b.Cap()
	case reflect.Func:
		if a.IsNil() || b.IsNil() {
			return a.IsNil() == b.IsNil()
		}
		return funcID(a) == funcID(b)
	case reflect.Interface:
		if a.IsNil() || b.IsNil() {
			return a.IsNil() == b.IsNil()
		}
		return same(a.Elem(), b.Elem())
	case reflect.Struct:
		for i := 0; i < a.NumField(); i++ {
			if !same(a.Field(i), b.Field(i)) {
				return false
			}
		}
		return true
	case reflect.Array:
		for i := 0; i < a.Len(); i++ {
			if !same(a.Index(i), b.Index(i)) {
				return false
			}
		}
		return true
	}
	if a.CanInterface() && b.CanInterface() {
		return a.Interface() == b.Interface()
	}
	return reflect.DeepEqual(fmt.Sprint(a), fmt.Sprint(b))
}

// funcID invokes a driver-made func value with zero arguments and returns the id it
// stores. The store is goroutine-confined: explorers never share func values, and the id is
// read back immediately after the call on the same goroutine through a per-call cell.
func funcID(f reflect.Value) int {
	t := f.Type()
	args := make([]reflect.Value, t.NumIn())
	for i := range args {
		args[i] = reflect.Zero(t.In(i))
	}
	funcIDMu.Lock()
	defer funcIDMu.Unlock()
	lastFuncID.Store(0)
	func() {
		defer func() { recover() }()
		if t.IsVariadic() {
			f.CallSlice(args)
		} else {
			f.Call(args)
		}
	}()
	return int(lastFuncID.Load())
}

func goid() int64 {
	var buf [64]byte
	n := runtime.Stack(buf[:], false)
	f := bytes.Fields(buf[:n])
	if len(f) < 2 {
		return -1
	}
	id, _ := strconv.ParseInt(string(f[1]), 10, 64)
	return id
}

// ---- model comparison ----

func (r *run) readCalls(m int) reflect.Value {
	return r.pv.Method(r.ms[m].callsIdx).Call(nil)[0]
}

func recordMatches(elem reflect.Value, rec record) (bool, string) {
	if elem.Kind() != reflect.Struct {
		return false, "record is not a struct"
	}
	if elem.NumField() != len(rec) {
		return false, fmt.Sprintf("record has %d fields, call had %d arguments", elem.NumField(), len(rec))
	}
	for i := range rec {
		if !same(elem.Field(i), rec[i]) {
			return false, fmt.Sprintf("field %d (%s) holds %v, argument was %v", i, elem.Type().Field(i).Name, show(elem.Field(i)), show(rec[i]))
		}
	}
	return true, ""
}

func show(v reflect.Value) string {
	if !v.IsValid() {
		return "<invalid>"
	}
	switch v.Kind() {
	case reflect.Ptr, reflect.Map, reflect.Chan, reflect.UnsafePointer:
		return fmt.Sprintf("%s@%x", v.Type(), v.Pointer())
	case reflect.Slice:
		return fmt.Sprintf("%s@%x len %d cap %d", v.Type(), v.Pointer(), v.Len(), v.Cap())
	case reflect.Func:
		return fmt.Sprintf("%s(func)", v.Type())
	}
	s := fmt.Sprintf("%v", v)
	if len(s) > 60 {
		s = s[:60]
	}
	return s
}

// checkAll compares every accessor with the model and every live snapshot with its
// capture-time contents.
func (r *run) checkAll(when string) {
	for m := range r.ms {
		got := r.readCalls(m)
		if got.Kind() != reflect.Slice {
			r.fail("C04", "accessor-kind", r.ms[m].name+"Calls does not return a slice")
			return
		}
		want := r.model[m]
		if got.Len() != len(want) {
			prop := "C04"
			if r.lastIsReset() {
				prop = "C08"
			}
			if n := len(r.hist); n > 0 && r.hist[n-1].kind == opCall && r.hist[n-1].fb == fbNil {
				prop = "C04,C07" // a call with a nil function that is not recorded (stub) is C07's statement too
			}
			r.fail(prop, "record-count", fmt.Sprintf("%s: %sCalls() has %d records, model has %d", when, r.ms[m].name, got.Len(), len(want)))
			return
		}
		for i := range want {
			if ok, why := recordMatches(got.Index(i), want[i]); !ok {
				r.fail("C04", "record-content", fmt.Sprintf("%s: %sCalls()[%d]: %s", when, r.ms[m].name, i, why))
				return
			}
		}
	}
	for si, s := range r.snaps {
		r.stats.snapChecks++
		if s.slice.Len() != len(s.want) {
			r.fail("C04", "snapshot-length", fmt.Sprintf("%s: snapshot %d of %sCalls changed length", when, si, r.ms[s.method].name))
			return
		}
		for i := range s.want {
			if ok, why := recordMatches(s.slice.Index(i), s.want[i]); !ok {
				r.fail("C04", "snapshot-mutated", fmt.Sprintf("%s: snapshot %d of %sCalls() taken after op %d: element %d changed: %s", when, si, r.ms[s.method].name, s.at, i, why))
				return
			}
		}
	}
}

func (r *run) lastIsReset() bool {
	if len(r.hist) == 0 {
		return false
	}
	k := r.hist[len(r.hist)-1].kind
	return k == opReset || k == opResetAll
}

// abstraction of the implementation state, for the "states" counter only
func (r *run) stateKey() string {
	var b strings.Builder
	for m := range r.ms {
		s := r.pv.Elem().FieldByName("calls").FieldByName(r.ms[m].name)
		if s.IsValid() && s.Kind() == reflect.Slice {
			fmt.Fprintf(&b, "%s:%d/%d;", r.ms[m].name, s.Len(), s.Cap())
			for si, sn := range r.snaps {
				if sn.method == m && sn.slice.Len() > 0 && s.Len() > 0 && sn.slice.Pointer() == s.Pointer() {
					fmt.Fprintf(&b, "sh%d;", si)
				}
			}
		} else {
			fmt.Fprintf(&b, "%s:%d;", r.ms[m].name, len(r.model[m]))
		}
	}
	fmt.Fprintf(&b, "snaps%d", len(r.snaps))
	return b.String()
}

// ---- operations ----

type panicToken struct{ id int }

func (r *run) setFunc(m int, fn reflect.Value) {
	r.pv.Elem().Field(r.ms[m].funcIdx).Set(fn)
}

func zeroOuts(t reflect.Type) []reflect.Value {
	out := make([]reflect.Value, t.NumOut())
	for i := range out {
		out[i] = reflect.Zero(t.Out(i))
	}
	return out
}

func (r *run) doCall(o op) {
	mi := r.ms[o.method]
	ft := mi.ftype
	args := make([]reflect.Value, ft.NumIn())
	for i := range args {
		args[i] = r.mkValue(ft.In(i), o.token, 0)
	}
	results := make([]reflect.Value, ft.NumOut())
	for i := range results {
		results[i] = r.mkValue(ft.Out(i), o.token+5, 0)
	}
	rec := record(args)
	invoked := 0
	otherInvoked := ""
	pt := &panicToken{id: r.serial}
	// goroutine identity costs a traceback under a global runtime lock: it is checked in the
	// histories of length 1 (so for every method and behaviour) and in the all-shapes leg
	checkG := r.checkG
	var caller int64
	if checkG {
		caller = goid()
	}
	other := (o.method + 1) % len(r.ms)
	var otherRec record
	otherCalls := 0

	// every other method's function is a tripwire (or, for fbCallOther, a recorder)
	for k := range r.ms {
		if k == o.method {
			continue
		}
		k := k
		kt := r.ms[k].ftype
		r.setFunc(k, reflect.MakeFunc(kt, func(in []reflect.Value) []reflect.Value {
			if o.fb == fbCallOther && k == other {
				otherCalls++
				if !argsSame(in, otherRec) {
					r.fail("C03", "nested-args", "function of the re-entered method saw different arguments")
				}
			} else {
				otherInvoked = r.ms[k].name
			}
			return zeroOuts(kt)
		}))
	}
	if o.fb == fbNil {
		r.setFunc(o.method, reflect.Zero(ft))
	} else {
		r.setFunc(o.method, reflect.MakeFunc(ft, func(in []reflect.Value) []reflect.Value {
			invoked++
			r.stats.callbacks++
			if !checkG {
			} else if g := goid(); g != caller {
				r.fail("C03", "goroutine", fmt.Sprintf("%sFunc ran on goroutine %d, caller is %d", mi.name, g, caller))
			}
			if !argsSame(in, rec) {
				r.fail("C03", "args", fmt.Sprintf("%sFunc saw arguments %s, caller passed %s", mi.name, showAll(in), showAll(rec)))
			}
			// the call is already recorded when the function runs (observed by every
			// behaviour except the plain one, which leaves the mock alone)
			got := reflect.Value{}
			want := r.model[o.method]
			if o.fb != fbRet {
				got = r.readCalls(o.method)
			}
			if !got.IsValid() {
			} else if got.Len() != len(want) {
				r.fail("C04", "recorded-before-func", fmt.Sprintf("inside %sFunc: %sCalls() has %d records, expected %d (the running call included)", mi.name, mi.name, got.Len(), len(want)))
			} else if len(want) > 0 {
				if ok, why := recordMatches(got.Index(len(want)-1), want[len(want)-1]); !ok {
					r.fail("C04", "recorded-before-func", "inside "+mi.name+"Func: last record is not the running call: "+why)
				}
			}
			switch o.fb {
			case fbPanic:
				panic(pt)
			case fbCallOther:
				if len(r.ms) > 1 {
					ot := r.ms[other].ftype
					oargs := make([]reflect.Value, ot.NumIn())
					for i := range oargs {
						oargs[i] = r.mkValue(ot.In(i), 1, 0)
					}
					otherRec = record(oargs)
					r.model[other] = append(r.model[other], otherRec)
					om := r.pv.Method(r.ms[other].callIdx)
					if ot.IsVariadic() {
						om.CallSlice(oargs)
					} else {
						om.Call(oargs)
					}
				}
			}
			return results
		}))
	}

	// the model records the call before the function runs
	nilNoStub := o.fb == fbNil && !r.spec.Stub
	if !nilNoStub {
		r.model[o.method] = append(r.model[o.method], rec)
	}
	var outs []reflect.Value
	var recovered any
	panicked := true
	func() {
		defer func() {
			if panicked {
				recovered = recover()
			}
		}()
		m := r.pv.Method(mi.callIdx)
		if mi.variadic {
			outs = m.CallSlice(args)
		} else {
			outs = m.Call(args)
		}
		panicked = false
	}()
	if otherInvoked != "" {
		r.fail("C03", "other-func-invoked", fmt.Sprintf("calling %s invoked %sFunc", mi.name, otherInvoked))
	}
	switch o.fb {
	case fbNil:
		if invoked != 0 {
			r.fail("C07", "nil-func-invoked-something", "")
		}
		if r.spec.Stub {
			if panicked {
				r.fail("C07", "stub-panicked", fmt.Sprintf("-stub mock panicked on nil %sFunc: %v", mi.name, recovered))
				return
			}
			for i, ov := range outs {
				if !ov.IsZero() {
					r.fail("C07", "stub-nonzero-result", fmt.Sprintf("result %d of %s is %v, want the zero value", i, mi.name, show(ov)))
				}
			}
		} else {
			r.stats.nilPanics++
			if !panicked {
				r.fail("C07", "nil-func-no-panic", fmt.Sprintf("%s with nil %sFunc did not panic", mi.name, mi.name))
				return
			}
			msg := fmt.Sprint(recovered)
			field := mi.name + "Func"
			rest := strings.Replace(msg, r.spec.MockType+"."+field, "", 1)
			rest = strings.Replace(rest, field, "", -1)
			if !strings.Contains(msg, r.spec.MockType) || !strings.Contains(msg, field) || !strings.Contains(rest, mi.name) {
				r.fail("C07", "nil-func-message", fmt.Sprintf("panic message %q does not name mock type %q, field %q and method %q", msg, r.spec.MockType, field, mi.name))
			}
			// C04/C07 leave open whether the refused call is recorded: follow the implementation
			got := r.readCalls(o.method)
			if got.Len() == len(r.model[o.method])+1 {
				if ok, _ := recordMatches(got.Index(got.Len()-1), rec); ok {
					r.model[o.method] = append(r.model[o.method], rec)
				}
			}
		}
	case fbPanic:
		if !panicked {
			r.fail("C03", "panic-swallowed", mi.name+"Func panicked but the caller saw a normal return")
		} else if recovered != any(pt) {
			r.fail("C03", "panic-value", fmt.Sprintf("caller recovered %v, %sFunc panicked with %v", recovered, mi.name, pt))
		}
		if invoked != 1 {
			r.fail("C03", "invocations", fmt.Sprintf("%sFunc invoked %d times", mi.name, invoked))
		}
	default:
		if panicked {
			r.fail("C03", "unexpected-panic", fmt.Sprintf("%s panicked: %v", mi.name, recovered))
			return
		}
		if invoked != 1 {
			r.fail("C03", "invocations", fmt.Sprintf("%sFunc invoked %d times", mi.name, invoked))
		}
		if len(outs) != len(results) {
			r.fail("C03", "result-count", "")
			return
		}
		for i := range outs {
			if !same(outs[i], results[i]) {
				r.fail("C03", "results", fmt.Sprintf("caller saw result %d = %s, %sFunc returned %s", i, show(outs[i]), mi.name, show(results[i])))
			}
		}
		if o.fb == fbCallOther && len(r.ms) > 1 && otherCalls != 1 {
			r.fail("C03", "nested-invocations", fmt.Sprintf("re-entered method's function ran %d times", otherCalls))
		}
	}
}

func argsSame(in []reflect.Value, rec record) bool {
	if len(in) != len(rec) {
		return false
	}
	for i := range in {
		if !same(in[i], rec[i]) {
			return false
		}
	}
	return true
}

func showAll(vs []reflect.Value) string {
	var s []string
	for _, v := range vs {
		s = append(s, show(v))
	}
	return "(" + strings.Join(s, ", ") + ")"
}

func (r *run) apply(o op) {
	r.hist = append(r.hist, o)
	r.stats.ops++
	switch o.kind {
	case opCall:
		r.doCall(o)
	case opSnap:
		s := r.readCalls(o.method)
		r.snaps = append(r.snaps, snapshot{method: o.method, slice: s, want: append([]record{}, r.model[o.method]...), at: len(r.hist)})
	case opReset:
		if r.ms[o.method].resetIdx < 0 {
			r.fail("C08", "reset-missing", "Reset"+r.ms[o.method].name+"Calls not generated")
			return
		}
		r.pv.Method(r.ms[o.method].resetIdx).Call(nil)
		r.model[o.method] = nil
	case opResetAll:
		fn := r.pv.MethodByName("ResetCalls")
		if !fn.IsValid() {
			r.fail("C08", "reset-missing", "ResetCalls not generated")
			return
		}
		fn.Call(nil)
		for m := range r.model {
			r.model[m] = nil
		}
	}
	if !r.bad {
		r.checkAll("after op " + strconv.Itoa(len(r.hist)))
	}
}

func alphabet(spec *MockSpec, ms []*methodInfo, shapeLeg bool) []op {
	var ops []op
	for m := range ms {
		fbs := []int{fbRet, fbNil, fbPanic, fbReadInside, fbCallOther}
		if shapeLeg {
			fbs = []int{fbRet, fbNil, fbPanic}
		}
		for _, fb := range fbs {
			ops = append(ops, op{kind: opCall, method: m, token: 0, fb: fb})
		}
		if !shapeLeg {
			ops = append(ops, op{kind: opCall, method: m, token: 1, fb: fbRet})
		}
	}
	for m := range ms {
		ops = append(ops, op{kind: opSnap, method: m})
	}
	if spec.Resets {
		for m := range ms {
			ops = append(ops, op{kind: opReset, method: m})
		}
		ops = append(ops, op{kind: opResetAll})
	}
	return ops
}

// progress of each explorer goroutine, for the hang watchdog
type slot struct {
	last atomic.Int64
	cur  atomic.Pointer[run]
}

var slots []*slot

// task is one shard of a mock's history space: all histories starting with op first
// (first < 0: the static checks only).
type task struct {
	spec  *MockSpec
	ms    []*methodInfo
	ops   []op
	first int
}

func prepare(spec *MockSpec, col *collector) []task {
	ms, err := discover(spec)
	if err != nil {
		col.add(Violation{Prop: "C02", Oracle: "discover", Mock: spec.Name, Detail: err.Error()})
		return nil
	}
	pv := reflect.ValueOf(spec.New())
	// zero-value mock reports no calls; reset API presence matches the flag
	for _, m := range ms {
		if n := pv.Method(m.callsIdx).Call(nil)[0].Len(); n != 0 {
			col.add(Violation{Prop: "C04", Oracle: "zero-mock-nonempty", Mock: spec.Name, Detail: m.name})
		}
		if m.hasReset != spec.Resets {
			col.add(Violation{Prop: "C08", Oracle: "reset-api-presence", Mock: spec.Name, Detail: fmt.Sprintf("Reset%sCalls present=%v, -with-resets=%v", m.name, m.hasReset, spec.Resets)})
		}
	}
	if pv.MethodByName("ResetCalls").IsValid() != spec.Resets {
		col.add(Violation{Prop: "C08", Oracle: "reset-api-presence", Mock: spec.Name, Detail: fmt.Sprintf("ResetCalls present=%v, -with-resets=%v", pv.MethodByName("ResetCalls").IsValid(), spec.Resets)})
	}
	if len(ms) == 0 {
		return nil
	}
	ops := alphabet(spec, ms, spec.Family == "shape")
	var ts []task
	if spec.Family == "shape" {
		return []task{{spec, ms, ops, -1}}
	}
	for i := range ops {
		ts = append(ts, task{spec, ms, ops, i})
	}
	return ts
}

// explore runs every op sequence of length 1..depth (of this shard) on fresh mocks.
func explore(t task, col *collector, rep *Report, mu *sync.Mutex, sl *slot) {
	spec, ms, ops := t.spec, t.ms, t.ops
	depth := spec.Depth
	if len(ms) >= 4 && spec.Family != "shape" && depth > 3 {
		depth-- // 4+ methods: alphabet of 33+ operations, one level less
	}
	st := &stats{}
	states := map[string]struct{}{}
	var histories int64
	var sample []string
	seq := make([]int, 0, depth)
	var rec func()
	rec = func() {
		if len(seq) > 0 {
			r := &run{spec: spec, ms: ms, pv: reflect.ValueOf(spec.New()), model: make([][]record, len(ms)), col: col, stats: st,
				checkG: len(seq) == 1 || spec.Family == "shape"}
			sl.cur.Store(r)
			sl.last.Store(time.Now().UnixNano())
			for _, oi := range seq {
				r.apply(ops[oi])
				if r.bad {
					break
				}
			}
			histories++
			if !r.bad {
				states[r.stateKey()+"|"+modelKey(r.model)] = struct{}{}
			}
			if sample == nil && len(seq) == depth {
				for _, o := range r.hist {
					sample = append(sample, o.String(ms))
				}
			}
		}
		if len(seq) == depth {
			return
		}
		for oi := range ops {
			seq = append(seq, oi)
			rec()
			seq = seq[:len(seq)-1]
		}
	}
	if t.first >= 0 {
		seq = append(seq, t.first)
	}
	rec()
	mu.Lock()
	rep.Histories += histories
	rep.Ops += st.ops
	rep.NilPanics += st.nilPanics
	rep.Callbacks += st.callbacks
	rep.SnapsStable += st.snapChecks
	for k := range states {
		rep.stateSet[spec.Name+"|"+k] = struct{}{}
	}
	rep.PerMock[spec.Name] += int(histories)
	if depth > rep.MaxDepth {
		rep.MaxDepth = depth
	}
	if sample != nil && len(rep.Samples) < 6 && (t.first <= 0) {
		rep.Samples = append(rep.Samples, append([]string{spec.Name + ":"}, sample...))
	}
	mu.Unlock()
}

func modelKey(model [][]record) string {
	var b strings.Builder
	for _, l := range model {
		fmt.Fprintf(&b, "%d,", len(l))
	}
	return b.String()
}

// Main runs the exploration for all specs and prints the report as JSON on stdout.
func Main(specs []MockSpec) {
	depthDyn := flag.Int("depth", 4, "history depth for the dynamic family")
	depthShape := flag.Int("shape-depth", 2, "history depth for the all-shapes leg")
	workers := flag.Int("workers", runtime.NumCPU(), "parallel explorers")
	only := flag.String("only", "", "substring filter on mock names")
	cpuprof := flag.String("cpuprofile", "", "write a CPU profile")
	hangLimit := flag.Duration("hang", 90*time.Second, "an explorer without progress for this long is reported as hung")
	flag.Parse()
	if *cpuprof != "" {
		f, _ := os.Create(*cpuprof)
		pprof.StartCPUProfile(f)
		defer pprof.StopCPUProfile()
	}
	rep := &Report{PerMock: map[string]int{}, stateSet: map[string]struct{}{}}
	col := &collector{}
	var mu sync.Mutex
	var wg sync.WaitGroup
	ch := make(chan task, 64)
	for i := 0; i < *workers; i++ {
		wg.Add(1)
		sl := &slot{}
		slots = append(slots, sl)
		go func() {
			defer wg.Done()
			for t := range ch {
				func() {
					defer func() {
						if p := recover(); p != nil {
							buf := make([]byte, 4096)
							n := runtime.Stack(buf, false)
							col.add(Violation{Prop: "HARNESS", Oracle: "driver-panic", Mock: t.spec.Name, Detail: fmt.Sprintf("%v\n%s", p, buf[:n])})
						}
					}()
					explore(t, col, rep, &mu, sl)
				}()
				sl.cur.Store(nil)
			}
		}()
	}
	// Hang watchdog: an operation takes microseconds; an explorer that makes no progress for
	// hangLimit is stuck inside generated code (a lock held across the callback, a leaked
	// lock). The history in flight is reported and the process ends.
	go func() {
		for {
			time.Sleep(2 * time.Second)
			for _, sl := range slots {
				r := sl.cur.Load()
				if r == nil || time.Since(time.Unix(0, sl.last.Load())) < *hangLimit {
					continue
				}
				h := make([]string, len(r.hist))
				for i, o := range r.hist {
					h[i] = o.String(r.ms)
				}
				col.add(Violation{Prop: "C03,C04,C06,C07,C08", Oracle: "hang", Mock: r.spec.Name, History: h,
					Detail: fmt.Sprintf("no progress for %s inside the last operation of this history: generated code blocks (deadlock on the mock's own locks)", *hangLimit)})
				mu.Lock()
				rep.States = len(rep.stateSet)
				rep.Violations = col.viols
				rep.Hung = true
				json.NewEncoder(os.Stdout).Encode(rep)
				os.Exit(0)
			}
		}
	}()
	// big jobs first
	sort.SliceStable(specs, func(i, j int) bool { return specs[i].Family < specs[j].Family })
	for i := range specs {
		s := &specs[i]
		if *only != "" && !strings.Contains(s.Name, *only) {
			continue
		}
		if s.Family == "shape" {
			s.Depth = *depthShape
		} else if s.Depth == 0 {
			s.Depth = *depthDyn
		}
		rep.Mocks++
		func() {
			defer func() {
				if p := recover(); p != nil {
					col.add(Violation{Prop: "HARNESS", Oracle: "driver-panic", Mock: s.Name, Detail: fmt.Sprint(p)})
				}
			}()
			for _, t := range prepare(s, col) {
				ch <- t
			}
		}()
	}
	close(ch)
	wg.Wait()
	rep.States = len(rep.stateSet)
	rep.Violations = col.viols
	enc := json.NewEncoder(os.Stdout)
	enc.Encode(rep)
}

// Values builds argument values for arbitrary function types (exported for the
// reflection-based targets of engine E4).
type Values struct{ r run }

func NewValues() *Values { return &Values{} }

// Args returns one value per parameter of ft, derived from token.
func (v *Values) Args(ft reflect.Type, token int) []reflect.Value {
	args := make([]reflect.Value, ft.NumIn())
	for i := range args {
		args[i] = v.r.mkValue(ft.In(i), token, 0)
	}
	return args
}

// Same reports whether b is the very same value as a (identity for reference kinds).
func Same(a, b reflect.Value) bool { return same(a, b) }
