module verif/rt

go 1.24
