// Package e4rt closes the system for engine E4: small thread programs over one mock of the
// interface Two{ M(a int, b string) (int, error); N(xs ...int) }, callback programs for
// MFunc (re-entrant and blocked ones), and the per-execution oracles (happens-before
// races and deadlocks come from the scheduler; linearizability against a per-method list
// model, torn/duplicated records and snapshot stability are checked here).
package e4rt

import (
	"encoding/json"
	"flag"
	"fmt"
	"os"
	"sort"
	"strings"

	"verif/rt/sched"
)

// Target adapts one generated TwoMock build.
type Target interface {
	Name() string
	HasResets() bool
	Stub() bool
	New() Mock
}

// Mock is a fresh mock instance behind a typed adapter. Record tokens: M(tok) passes
// a=tok, b="s<tok>"; N(tok) passes xs=[tok,tok]; MCalls/NCalls decode each record back to
// its token, or -1 when the fields of one record disagree (torn).
type Mock interface {
	CallM(tok int)
	CallN(tok int)
	MCalls() Snap
	NCalls() Snap
	ResetM()
	ResetAll()
	SetMFunc(f func(tok int))
	SetNFunc(f func(tok int))
}

// Snap is one result of an accessor: the records decoded to tokens at the time of the
// read, and a function that decodes the very same returned slice again later.
type Snap struct {
	Tokens []int
	Again  func() []int
}

const (
	opM = iota
	opN
	opMCalls
	opNCalls
	opResetM
	opResetAll
)

var opNames = []string{"M", "N", "MCalls", "NCalls", "ResetMCalls", "ResetCalls"}

// callback programs of MFunc
const (
	cbRet = iota
	cbCallM
	cbReadM
	cbResetM
	cbResetAll
	cbCallN
	cbGate
	cbNil // MFunc left nil (only meaningful with -stub)
)

var cbNames = []string{"returns", "calls M again", "reads MCalls", "calls ResetMCalls", "calls ResetCalls", "calls N", "blocks until another thread completed an operation", "nil"}

// Scenario is a closed system: programs of 2–3 threads and the callback program.
type Scenario struct {
	Programs [][]int
	Callback int
}

func (sc Scenario) String() string {
	var ps []string
	for i, p := range sc.Programs {
		var os []string
		for _, o := range p {
			os = append(os, opNames[o])
		}
		ps = append(ps, fmt.Sprintf("T%d: %s", i, strings.Join(os, "; ")))
	}
	return strings.Join(ps, " || ") + " ; MFunc " + cbNames[sc.Callback]
}

func (sc Scenario) hasOp(o int) bool {
	for _, p := range sc.Programs {
		for _, x := range p {
			if x == o {
				return true
			}
		}
	}
	return false
}

// hop is one operation of the recorded concurrent history.
type hop struct {
	kind   int // opM (append to M), opN, opMCalls, opNCalls, opResetM, opResetAll
	tok    int
	call   int
	ret    int
	result []int
	again  func() []int
	thread int
}

type recorder struct {
	ops []*hop
}

func (r *recorder) begin(s *sched.Scheduler, kind, tok int) *hop {
	h := &hop{kind: kind, tok: tok, call: s.Tick(), ret: -1, thread: s.Me()}
	r.ops = append(r.ops, h)
	return h
}

func (r *recorder) end(s *sched.Scheduler, h *hop) {
	if h.ret < 0 {
		h.ret = s.Tick()
	}
}

// instance builds one fresh execution of a scenario.
func instance(t Target, sc Scenario) sched.Instance {
	m := t.New()
	rec := &recorder{}
	tokOf := func(thread, idx, nested int) int { return 100*(thread+1) + 10*idx + nested }
	tokenFreeM := false
	if tf, ok := t.(interface{ TokenFree() bool }); ok {
		tokenFreeM = tf.TokenFree()
	}
	tokenFreeN := false
	if tf, ok := t.(interface{ TokenFreeN() bool }); ok {
		tokenFreeN = tf.TokenFreeN()
	}
	nT := len(sc.Programs)
	pending := make([][]*hop, nT) // per thread: the append ops whose callback is running
	depth := make([]int, nT)      // per thread: callback nesting
	gateUsed := false
	nested := 0 // tokens of calls made from inside a callback are unique per execution
	var do func(s *sched.Scheduler, o, tok int)
	do = func(s *sched.Scheduler, o, tok int) {
		me := s.Me()
		switch o {
		case opM:
			if tokenFreeM {
				tok = 0 // records of a parameterless method carry no data
			}
			h := rec.begin(s, opM, tok)
			pending[me] = append(pending[me], h)
			m.CallM(tok)
			pending[me] = pending[me][:len(pending[me])-1]
			rec.end(s, h)
		case opN:
			if tokenFreeN {
				tok = 0
			}
			h := rec.begin(s, opN, tok)
			m.CallN(tok)
			rec.end(s, h)
		case opMCalls:
			h := rec.begin(s, opMCalls, 0)
			sn := m.MCalls()
			h.result, h.again = sn.Tokens, sn.Again
			rec.end(s, h)
		case opNCalls:
			h := rec.begin(s, opNCalls, 0)
			sn := m.NCalls()
			h.result, h.again = sn.Tokens, sn.Again
			rec.end(s, h)
		case opResetM:
			h := rec.begin(s, opResetM, 0)
			m.ResetM()
			rec.end(s, h)
		case opResetAll:
			h := rec.begin(s, opResetAll, 0)
			m.ResetAll()
			rec.end(s, h)
		}
	}
	if sc.Callback != cbNil {
		m.SetMFunc(func(tok int) {
			s := sched.Cur
			me := s.Me()
			// the record is made before MFunc runs: the append's effect lies before this point
			if n := len(pending[me]); n > 0 {
				rec.end(s, pending[me][n-1])
			}
			if depth[me] > 0 {
				return // nested call: plain return
			}
			depth[me]++
			defer func() { depth[me]-- }()
			switch sc.Callback {
			case cbCallM:
				nested++
				do(s, opM, 900+nested)
			case cbReadM:
				do(s, opMCalls, 0)
			case cbResetM:
				do(s, opResetM, 0)
			case cbResetAll:
				do(s, opResetAll, 0)
			case cbCallN:
				nested++
				do(s, opN, 900+nested)
			case cbGate:
				// only the first callback of an execution blocks (two callbacks waiting for each
				// other would be a deadlock of the harness, not of the generated code)
				if gateUsed || nT < 2 {
					return
				}
				gateUsed = true
				other := -1
				s.WaitUntil("gate", func() bool {
					for id := range sc.Programs {
						if id != me && s.OpsDone(id) > 0 {
							other = id
							return true
						}
					}
					return false
				})
				if other >= 0 {
					s.JoinFrom(other)
				}
			}
		})
	}
	m.SetNFunc(func(tok int) {})
	bodies := make([]func(), nT)
	for ti, prog := range sc.Programs {
		ti, prog := ti, prog
		bodies[ti] = func() {
			s := sched.Cur
			for i, o := range prog {
				do(s, o, tokOf(ti, i, 0))
				s.OpDone()
			}
		}
	}
	check := func(s *sched.Scheduler) (string, []sched.Failure) {
		var fails []sched.Failure
		finalM, finalN := m.MCalls().Tokens, m.NCalls().Tokens
		// a slice already returned by an accessor is never changed by later calls or resets
		for _, h := range rec.ops {
			if h.again != nil {
				if now := h.again(); !equal(now, h.result) {
					fails = append(fails, sched.Failure{Kind: "snapshot-mutated", Detail: fmt.Sprintf("a slice returned by %s held %v when it was returned and holds %v at the end of the execution", opNames[h.kind], h.result, now)})
				}
			}
		}
		for _, h := range rec.ops {
			if h.ret < 0 {
				h.ret = 1 << 30
			}
		}
		for _, l := range [][]int{finalM, finalN} {
			for _, x := range l {
				if x < 0 {
					fails = append(fails, sched.Failure{Kind: "torn-record", Detail: fmt.Sprintf("a record holds fields of different calls: M=%v N=%v", finalM, finalN)})
				}
			}
		}
		// final reads as two more operations at the end
		end := s.Tick()
		ops := append([]*hop{}, rec.ops...)
		ops = append(ops, &hop{kind: opMCalls, call: end + 1, ret: end + 2, result: finalM}, &hop{kind: opNCalls, call: end + 3, ret: end + 4, result: finalN})
		// C05 promises one atomic list PER METHOD (ResetCalls takes the per-method locks one after
		// another and is not atomic across methods), so each method's list is checked as an
		// object of its own; ResetCalls counts as a reset of each list with the same interval.
		var opsM, opsN []*hop
		for _, h := range ops {
			switch h.kind {
			case opM, opMCalls, opResetM:
				opsM = append(opsM, h)
			case opN, opNCalls:
				opsN = append(opsN, h)
			case opResetAll:
				opsM = append(opsM, h)
				opsN = append(opsN, h)
			}
		}
		for _, part := range [][]*hop{opsM, opsN} {
			if why := linearizable(part); why != "" {
				fails = append(fails, sched.Failure{Kind: "not-linearizable", Detail: why + "\nhistory of this method's list: " + showHistory(part)})
			}
		}
		// per-thread program order inside the final list (between resets this is implied by
		// linearizability; checked directly as a second opinion when nothing was reset)
		if !sc.hasOp(opResetM) && !sc.hasOp(opResetAll) && sc.Callback != cbResetM && sc.Callback != cbResetAll {
			want := 0
			for _, h := range rec.ops {
				if h.kind == opM {
					want++
				}
			}
			if len(finalM) != want {
				fails = append(fails, sched.Failure{Kind: "lost-or-duplicated-record", Detail: fmt.Sprintf("%d calls to M, %d records: %v", want, len(finalM), finalM)})
			}
			for _, h := range rec.ops {
				if (h.kind == opMCalls && !isPrefix(h.result, finalM)) || (h.kind == opNCalls && !isPrefix(h.result, finalN)) {
					fails = append(fails, sched.Failure{Kind: "snapshot-not-prefix", Detail: fmt.Sprintf("snapshot %v is not a prefix of the final list", h.result)})
				}
			}
		}
		out := fmt.Sprintf("M=%v N=%v", finalM, finalN)
		for _, h := range rec.ops {
			if h.kind == opMCalls || h.kind == opNCalls {
				out += fmt.Sprintf(" snap%v", h.result)
			}
		}
		return out, fails
	}
	return sched.Instance{Bodies: bodies, Check: check}
}

func isPrefix(a, b []int) bool {
	if len(a) > len(b) {
		return false
	}
	for i := range a {
		if a[i] != b[i] {
			return false
		}
	}
	return true
}

func showHistory(ops []*hop) string {
	var s []string
	for _, h := range ops {
		x := fmt.Sprintf("T%d %s", h.thread, opNames[h.kind])
		if h.kind == opM || h.kind == opN {
			x += fmt.Sprintf("(%d)", h.tok)
		}
		if h.result != nil || h.kind == opMCalls || h.kind == opNCalls {
			x += fmt.Sprintf("=%v", h.result)
		}
		s = append(s, fmt.Sprintf("%s[%d,%d]", x, h.call, h.ret))
	}
	return strings.Join(s, " ")
}

// linearizable searches for a total order of ops that respects real time (a.ret < b.call ⇒
// a before b) and the sequential specification of two append-only lists with snapshot and
// reset. Returns "" if one exists.
func linearizable(ops []*hop) string {
	n := len(ops)
	if n > 20 {
		return "history too long for the brute-force checker"
	}
	type state struct {
		done uint32
		m, n string
	}
	seen := map[state]bool{}
	var lm, ln []int
	var rec func(done uint32) bool
	key := func(l []int) string { return fmt.Sprint(l) }
	rec = func(done uint32) bool {
		if done == 1<<uint(n)-1 {
			return true
		}
		st := state{done, key(lm), key(ln)}
		if seen[st] {
			return false
		}
		seen[st] = true
		// minimal return time among pending ops: an op may go next only if it was called
		// before every pending op returned
		minRet := 1 << 62
		for i, h := range ops {
			if done>>uint(i)&1 == 0 && h.ret < minRet {
				minRet = h.ret
			}
		}
		for i, h := range ops {
			if done>>uint(i)&1 == 1 || h.call > minRet {
				continue
			}
			sm, sn := lm, ln
			ok := true
			switch h.kind {
			case opM:
				lm = append(append([]int{}, lm...), h.tok)
			case opN:
				ln = append(append([]int{}, ln...), h.tok)
			case opMCalls:
				ok = equal(h.result, lm)
			case opNCalls:
				ok = equal(h.result, ln)
			case opResetM:
				lm = nil
			case opResetAll:
				lm, ln = nil, nil
			}
			if ok && rec(done|1<<uint(i)) {
				return true
			}
			lm, ln = sm, sn
		}
		return false
	}
	if rec(0) {
		return ""
	}
	return "no linearization of the observed call/return history matches two atomic append-only lists"
}

func equal(a, b []int) bool {
	if len(a) != len(b) {
		return false
	}
	for i := range a {
		if a[i] != b[i] {
			return false
		}
	}
	return true
}

// Scenarios enumerates the closed systems for a target.
func Scenarios(t Target, level int) []Scenario {
	hasN := true
	if x, ok := t.(interface{ HasN() bool }); ok {
		hasN = x.HasN()
	}
	ops := []int{opM, opN, opMCalls, opNCalls}
	if !hasN {
		ops = []int{opM, opMCalls}
	}
	if t.HasResets() {
		ops = append(ops, opResetM, opResetAll)
	}
	var progs [][]int
	for _, a := range ops {
		progs = append(progs, []int{a})
	}
	if level >= 1 {
		for _, a := range ops {
			for _, b := range ops {
				progs = append(progs, []int{a, b})
			}
		}
	} else {
		// level 0: two-op programs only where the first op is a call or a reset
		for _, a := range ops {
			for _, b := range ops {
				if a == opM || a == opResetM || a == opResetAll {
					progs = append(progs, []int{a, b})
				}
			}
		}
	}
	cbs := []int{cbRet, cbCallM, cbReadM, cbCallN, cbGate}
	if !hasN {
		cbs = []int{cbRet, cbCallM, cbReadM, cbGate}
	}
	if t.HasResets() {
		cbs = append(cbs, cbResetM, cbResetAll)
	}
	if t.Stub() {
		cbs = append(cbs, cbNil)
	}
	var out []Scenario
	add := func(programs [][]int) {
		base := Scenario{Programs: programs}
		if !base.hasOp(opM) {
			base.Callback = cbRet
			out = append(out, base)
			return
		}
		for _, cb := range cbs {
			sc := Scenario{Programs: programs, Callback: cb}
			out = append(out, sc)
		}
	}
	// 1 thread: re-entrant callbacks decide "lock held across the callback" on their own
	for _, p := range progs[:len(ops)] {
		add([][]int{p})
	}
	// 2 threads: all multisets of two programs
	for i := range progs {
		for j := i; j < len(progs); j++ {
			add([][]int{progs[i], progs[j]})
		}
	}
	// 3 threads: all multisets of three one-op programs
	one := progs[:len(ops)]
	for i := range one {
		for j := i; j < len(one); j++ {
			for k := j; k < len(one); k++ {
				add([][]int{one[i], one[j], one[k]})
			}
		}
	}
	if level >= 2 {
		// 3 threads: one two-op program with two one-op programs containing at least one M
		for _, p := range progs[len(ops):] {
			for j := range one {
				for k := j; k < len(one); k++ {
					sc := [][]int{p, one[j], one[k]}
					if (Scenario{Programs: sc}).hasOp(opM) {
						add(sc)
					}
				}
			}
		}
	}
	return out
}

// Violation is one failure with everything needed to replay it.
type Violation struct {
	Prop        string   `json:"prop"`
	Kind        string   `json:"kind"`
	Target      string   `json:"target"`
	Scenario    string   `json:"scenario"`
	ScenarioIdx int      `json:"scenario_index"`
	Choices     []int    `json:"choices"`
	Preemptions int      `json:"preemptions"`
	Detail      string   `json:"detail"`
	Log         []string `json:"log"`
}

// Report is the JSON output of one driver process.
type Report struct {
	Target          string      `json:"target"`
	Scenarios       int         `json:"scenarios"`
	Executions      int64       `json:"executions"`
	Transitions     int64       `json:"transitions"`
	States          int64       `json:"states"`
	Bound           int         `json:"bound"`
	Capped          int         `json:"capped_scenarios"`
	SingleOutcome   int         `json:"scenarios_with_one_outcome"`
	MultiOutcome    int         `json:"scenarios_with_several_outcomes"`
	MaxOutcomes     int         `json:"max_distinct_outcomes"`
	DistinctOutcome int         `json:"distinct_outcomes_total"`
	Violations      []Violation `json:"violations"`
	Samples         []string    `json:"samples"`
	HarnessErrors   []string    `json:"harness_errors"`
}

func propOf(kind string) string {
	switch kind {
	case "deadlock":
		return "C06"
	case "foreign-goroutine":
		return "C03"
	}
	return "C05"
}

// Main is the driver entry point.
func Main(targets []Target) {
	bound := flag.Int("bound", 2, "preemption bound (-1 = unbounded)")
	shard := flag.Int("shard", 0, "shard index")
	of := flag.Int("of", 1, "number of shards")
	level := flag.Int("level", 1, "scenario set: 1 quick, 2 thorough")
	maxExec := flag.Int("max-exec", 2000000, "execution cap per scenario")
	only := flag.String("target", "", "target name filter")
	replay := flag.String("replay", "", "target|scenarioIndex|c,c,c : re-execute one schedule and print its log")
	flag.Parse()
	if *replay != "" {
		replayOne(targets, *replay, *level)
		return
	}
	var reports []Report
	for _, t := range targets {
		if *only != "" && t.Name() != *only {
			continue
		}
		rep := Report{Target: t.Name(), Bound: *bound}
		scs := Scenarios(t, *level)
		for i, sc := range scs {
			if i%*of != *shard {
				continue
			}
			sc := sc
			res := sched.Explore(func() sched.Instance { return instance(t, sc) }, *bound, *maxExec)
			rep.Scenarios++
			rep.Executions += int64(res.Executions)
			rep.Transitions += res.Transitions
			rep.States += int64(res.States)
			if res.Capped {
				rep.Capped++
			}
			if res.HarnessError != "" {
				rep.HarnessErrors = append(rep.HarnessErrors, sc.String()+": "+res.HarnessError)
			}
			if len(res.Outcomes) <= 1 {
				rep.SingleOutcome++
			} else {
				rep.MultiOutcome++
			}
			if len(res.Outcomes) > rep.MaxOutcomes {
				rep.MaxOutcomes = len(res.Outcomes)
			}
			rep.DistinctOutcome += len(res.Outcomes)
			if len(rep.Samples) < 3 && len(sc.Programs) > 1 && len(res.Outcomes) > 1 {
				var outs []string
				for o := range res.Outcomes {
					outs = append(outs, o)
				}
				sort.Strings(outs)
				if len(outs) > 4 {
					outs = outs[:4]
				}
				rep.Samples = append(rep.Samples, fmt.Sprintf("%s: %d schedules, outcomes e.g. %v", sc.String(), res.Executions, outs))
			}
			for _, f := range res.Found {
				rep.Violations = append(rep.Violations, Violation{Prop: propOf(f.Failure.Kind), Kind: f.Failure.Kind, Target: t.Name(), Scenario: sc.String(), ScenarioIdx: i,
					Choices: f.Choices, Preemptions: f.Preemptions, Detail: f.Failure.Detail, Log: f.Log})
			}
		}
		reports = append(reports, rep)
	}
	json.NewEncoder(os.Stdout).Encode(reports)
}

func replayOne(targets []Target, spec string, level int) {
	parts := strings.Split(spec, "|")
	if len(parts) != 3 {
		fmt.Println("bad replay spec")
		os.Exit(2)
	}
	var idx int
	fmt.Sscan(parts[1], &idx)
	var choices []int
	for _, c := range strings.Split(parts[2], ",") {
		if c != "" {
			var x int
			fmt.Sscan(c, &x)
			choices = append(choices, x)
		}
	}
	for _, t := range targets {
		if t.Name() != parts[0] {
			continue
		}
		sc := Scenarios(t, level)[idx]
		inst := instance(t, sc)
		s := sched.Run(choices, true, true, nil, inst.Bodies)
		fmt.Println("scenario:", sc.String())
		for _, l := range s.Trace {
			fmt.Println("  ", l)
		}
		fails := append([]sched.Failure{}, s.Failures...)
		if len(s.Failures) == 0 {
			_, f := inst.Check(s)
			fails = append(fails, f...)
		}
		for _, f := range fails {
			fmt.Printf("FAILURE %s: %s\n", f.Kind, f.Detail)
		}
		if len(fails) > 0 {
			os.Exit(1)
		}
		return
	}
	fmt.Println("unknown target")
	os.Exit(2)
}
