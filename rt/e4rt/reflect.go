package e4rt

// Reflection-based targets: any generated mock can be driven by the scenario machinery.
// Used by the all-shapes leg: every compiled shape is first executed single-threaded in
// trace mode; mocks whose abstract synchronisation/access trace is identical form a class
// and one representative per class is model-checked.

import (
	"encoding/json"
	"fmt"
	"hash/fnv"
	"os"
	"reflect"
	"sort"
	"strings"

	"verif/rt/e3rt"
	"verif/rt/sched"
)

// ReflectSpec describes one instrumented mock of arbitrary shape.
type ReflectSpec struct {
	Label  string
	New    func() any
	Stub   bool
	Resets bool
}

type rMethod struct {
	name                        string
	funcIdx                     int
	ftype                       reflect.Type
	callIdx, callsIdx, resetIdx int
}

type reflectTarget struct {
	spec ReflectSpec
	ms   []rMethod
	all  int // index of ResetCalls or -1
}

func newReflectTarget(spec ReflectSpec) (*reflectTarget, error) {
	pv := reflect.ValueOf(spec.New())
	if pv.Kind() != reflect.Ptr || pv.Elem().Kind() != reflect.Struct {
		return nil, fmt.Errorf("not a pointer to struct")
	}
	t := &reflectTarget{spec: spec, all: -1}
	st := pv.Elem().Type()
	idx := func(n string) int {
		if m, ok := pv.Type().MethodByName(n); ok {
			return m.Index
		}
		return -1
	}
	for i := 0; i < st.NumField(); i++ {
		f := st.Field(i)
		if !strings.HasSuffix(f.Name, "Func") || f.Type.Kind() != reflect.Func {
			continue
		}
		name := strings.TrimSuffix(f.Name, "Func")
		if idx(name) < 0 || idx(name+"Calls") < 0 {
			continue
		}
		t.ms = append(t.ms, rMethod{name: name, funcIdx: i, ftype: f.Type, callIdx: idx(name), callsIdx: idx(name + "Calls"), resetIdx: idx("Reset" + name + "Calls")})
	}
	sort.Slice(t.ms, func(i, j int) bool { return t.ms[i].name < t.ms[j].name })
	t.all = idx("ResetCalls")
	if len(t.ms) == 0 {
		return nil, fmt.Errorf("no methods")
	}
	return t, nil
}

func (t *reflectTarget) Name() string    { return t.spec.Label }
func (t *reflectTarget) HasResets() bool { return t.all >= 0 && t.ms[0].resetIdx >= 0 }
func (t *reflectTarget) Stub() bool      { return t.spec.Stub }
func (t *reflectTarget) HasN() bool      { return len(t.ms) > 1 }
func (t *reflectTarget) TokenFree() bool { return t.ms[0].ftype.NumIn() == 0 }
func (t *reflectTarget) TokenFreeN() bool {
	return len(t.ms) > 1 && t.ms[1].ftype.NumIn() == 0
}
func (t *reflectTarget) New() Mock {
	return &reflectMock{t: t, pv: reflect.ValueOf(t.spec.New()), args: [2]map[int][]reflect.Value{{}, {}}, vals: e3rt.NewValues()}
}

type reflectMock struct {
	t    *reflectTarget
	pv   reflect.Value
	args [2]map[int][]reflect.Value // per method slot: token -> arguments passed
	vals *e3rt.Values
}

func (m *reflectMock) slot(i int) rMethod {
	if i < len(m.t.ms) {
		return m.t.ms[i]
	}
	return m.t.ms[0]
}

func (m *reflectMock) call(slot, tok int) {
	rm := m.slot(slot)
	args := m.vals.Args(rm.ftype, tok)
	m.args[slot][tok] = args
	fn := m.pv.Method(rm.callIdx)
	if rm.ftype.IsVariadic() {
		fn.CallSlice(args)
	} else {
		fn.Call(args)
	}
}

func (m *reflectMock) CallM(tok int) { m.call(0, tok) }
func (m *reflectMock) CallN(tok int) { m.call(1, tok) }

func (m *reflectMock) decode(slot int) Snap {
	rm := m.slot(slot)
	recs := m.pv.Method(rm.callsIdx).Call(nil)[0]
	return Snap{Tokens: m.decodeRecs(slot, recs), Again: func() []int { return m.decodeRecs(slot, recs) }}
}

func (m *reflectMock) decodeRecs(slot int, recs reflect.Value) []int {
	out := make([]int, recs.Len())
	for i := range out {
		r := recs.Index(i)
		out[i] = -1
		if r.NumField() == 0 {
			out[i] = 0
			continue
		}
		for tok, args := range m.args[slot] {
			if len(args) != r.NumField() {
				continue
			}
			all := true
			for k := range args {
				if !e3rt.Same(r.Field(k), args[k]) {
					all = false
					break
				}
			}
			if all {
				out[i] = tok
				break
			}
		}
	}
	return out
}

func (m *reflectMock) MCalls() Snap { return m.decode(0) }
func (m *reflectMock) NCalls() Snap {
	if len(m.t.ms) < 2 {
		return Snap{}
	}
	return m.decode(1)
}
func (m *reflectMock) ResetM()   { m.pv.Method(m.t.ms[0].resetIdx).Call(nil) }
func (m *reflectMock) ResetAll() { m.pv.Method(m.t.all).Call(nil) }

func (m *reflectMock) setFunc(slot int, f func(tok int)) {
	rm := m.slot(slot)
	fld := m.pv.Elem().Field(rm.funcIdx)
	if f == nil {
		fld.Set(reflect.Zero(rm.ftype))
		return
	}
	fld.Set(reflect.MakeFunc(rm.ftype, func(in []reflect.Value) []reflect.Value {
		tok := 0
		for t, args := range m.args[slot] {
			if len(args) == len(in) {
				all := true
				for k := range args {
					if !e3rt.Same(in[k], args[k]) {
						all = false
						break
					}
				}
				if all && len(args) > 0 {
					tok = t
					break
				}
			}
		}
		f(tok)
		out := make([]reflect.Value, rm.ftype.NumOut())
		for i := range out {
			out[i] = reflect.Zero(rm.ftype.Out(i))
		}
		return out
	}))
}

func (m *reflectMock) SetMFunc(f func(int)) { m.setFunc(0, f) }
func (m *reflectMock) SetNFunc(f func(int)) {
	if len(m.t.ms) > 1 {
		m.setFunc(1, f)
	}
}

// traceClass runs a fixed single-threaded operation sequence under the scheduler in
// logging mode and returns the abstract trace: mutex and field names are replaced by roles
// in order of first occurrence.
func traceClass(t *reflectTarget) string {
	body := func() {
		m := t.New().(*reflectMock)
		s := sched.Cur
		mark := func(x string) { s.Note("op " + x) }
		for slot := 0; slot < 2 && slot < len(t.ms); slot++ {
			slot := slot
			m.setFunc(slot, func(int) { s.Note("callback") })
			mark("call")
			m.call(slot, 1)
			mark("calls")
			m.decode(slot)
			if t.Stub() {
				m.setFunc(slot, nil)
				mark("call-nil")
				m.call(slot, 2)
			}
			mark("call2")
			m.setFunc(slot, func(int) { s.Note("callback") })
			m.call(slot, 3)
			if t.ms[slot].resetIdx >= 0 {
				mark("reset")
				m.pv.Method(t.ms[slot].resetIdx).Call(nil)
				mark("call-after-reset")
				m.call(slot, 4)
			}
		}
		if t.all >= 0 {
			mark("reset-all")
			m.ResetAll()
			mark("reset-all-empty")
			m.ResetAll()
		}
	}
	s := sched.Run(nil, false, true, nil, []func(){body})
	roles := map[string]string{}
	var out []string
	for _, l := range s.Trace {
		f := strings.Fields(l)
		for i, w := range f {
			if strings.HasPrefix(w, "mu") || strings.HasPrefix(w, "mock.") {
				if _, ok := roles[w]; !ok {
					roles[w] = fmt.Sprintf("r%d", len(roles))
				}
				f[i] = roles[w]
			}
		}
		out = append(out, strings.Join(f, " "))
	}
	for _, f := range s.Failures {
		out = append(out, "FAIL "+f.Kind)
	}
	return fmt.Sprintf("methods=%d\n", len(t.ms)) + strings.Join(out, "\n")
}

// ClassReport is the output of the class pass.
type ClassReport struct {
	Mocks   int            `json:"mocks"`
	Classes []ClassInfo    `json:"classes"`
	Skipped map[string]int `json:"skipped"`
}

type ClassInfo struct {
	Key     string   `json:"key"`
	Rep     string   `json:"representative"`
	Members int      `json:"members"`
	Trace   []string `json:"trace"`
}

func classesOf(specs []ReflectSpec) (map[string][]*reflectTarget, *ClassReport) {
	cr := &ClassReport{Skipped: map[string]int{}}
	classes := map[string][]*reflectTarget{}
	traces := map[string]string{}
	for _, sp := range specs {
		t, err := newReflectTarget(sp)
		if err != nil {
			cr.Skipped[err.Error()]++
			continue
		}
		cr.Mocks++
		tr := traceClass(t)
		h := fnv.New64a()
		h.Write([]byte(tr))
		k := fmt.Sprintf("%016x", h.Sum64())
		classes[k] = append(classes[k], t)
		traces[k] = tr
	}
	var keys []string
	for k := range classes {
		keys = append(keys, k)
	}
	sort.Strings(keys)
	for _, k := range keys {
		cr.Classes = append(cr.Classes, ClassInfo{Key: k, Rep: classes[k][0].Name(), Members: len(classes[k]), Trace: strings.Split(traces[k], "\n")})
	}
	return classes, cr
}

// ReflectMain: mode "classes" prints the class report; otherwise explores the
// representative of every class like Main does for typed targets.
func ReflectMain(specs []ReflectSpec, args []string) {
	classes, cr := classesOf(specs)
	if len(args) > 0 && args[0] == "classes" {
		json.NewEncoder(os.Stdout).Encode(cr)
		return
	}
	var targets []Target
	for _, ci := range cr.Classes {
		targets = append(targets, classes[ci.Key][0])
	}
	os.Args = append([]string{os.Args[0]}, args...)
	Main(targets)
}
