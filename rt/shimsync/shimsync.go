// Package shimsync is API-compatible with the parts of package sync that generated mocks
// use. Its RWMutex and Mutex delegate every operation to the controlled scheduler of the
// execution in progress (verif/rt/sched); outside an execution they behave like the real
// ones. All other names of package sync are aliases of the real ones.
package shimsync

import (
	"sync"
	"unsafe"

	"verif/rt/sched"
)

type (
	WaitGroup = sync.WaitGroup
	Once      = sync.Once
	Pool      = sync.Pool
	Map       = sync.Map
	Cond      = sync.Cond
	Locker    = sync.Locker
)

var (
	NewCond  = sync.NewCond
	OnceFunc = sync.OnceFunc
)

// RWMutex is the instrumented reader/writer mutex.
type RWMutex struct {
	real sync.RWMutex
}

func (m *RWMutex) Lock() {
	if s := sched.Cur; s != nil {
		s.Lock(m)
		return
	}
	m.real.Lock()
}

func (m *RWMutex) Unlock() {
	if s := sched.Cur; s != nil {
		s.Unlock(m)
		return
	}
	m.real.Unlock()
}

func (m *RWMutex) RLock() {
	if s := sched.Cur; s != nil {
		s.RLock(m)
		return
	}
	m.real.RLock()
}

func (m *RWMutex) RUnlock() {
	if s := sched.Cur; s != nil {
		s.RUnlock(m)
		return
	}
	m.real.RUnlock()
}

func (m *RWMutex) TryLock() bool  { panic("shimsync: TryLock is not modelled") }
func (m *RWMutex) TryRLock() bool { panic("shimsync: TryRLock is not modelled") }
func (m *RWMutex) RLocker() Locker {
	return (*rlocker)(m)
}

type rlocker RWMutex

func (r *rlocker) Lock()   { (*RWMutex)(r).RLock() }
func (r *rlocker) Unlock() { (*RWMutex)(r).RUnlock() }

// Mutex is the instrumented plain mutex.
type Mutex struct {
	real sync.Mutex
}

func (m *Mutex) Lock() {
	if s := sched.Cur; s != nil {
		s.MLock(m)
		return
	}
	m.real.Lock()
}

func (m *Mutex) Unlock() {
	if s := sched.Cur; s != nil {
		s.MUnlock(m)
		return
	}
	m.real.Unlock()
}

func (m *Mutex) TryLock() bool { panic("shimsync: TryLock is not modelled") }

// Access is inserted (by an AST pass over the emitted mock) before every statement that
// reads or writes a field of the receiver: it feeds the happens-before race detector.
func Access[T any](p *T, write bool, name string) {
	if s := sched.Cur; s != nil {
		s.Access(uintptr(unsafe.Pointer(p)), write, name)
	}
}
