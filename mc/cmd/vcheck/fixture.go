package main

// Fixture universe: a scratch module example.com/m with tiny dependency packages whose
// import paths / names are chosen to stress moq's import-alias and naming logic, plus
// source packages generated from case descriptions.

import (
	"bytes"
	"encoding/json"
	"fmt"
	"go/ast"
	"go/importer"
	"go/parser"
	"go/token"
	"go/types"
	"io"
	"os"
	"os/exec"
	"path/filepath"
	"regexp"
	"sort"
	"strings"
	"sync"
)

const modPath = "example.com/m"

// dep describes one dependency package of the fixture module.
type dep struct {
	Key  string // "~/a/foo" (inside fixture module) or a std path
	Name string // package name
}

var fixtureDeps = []dep{
	{"~/a/foo", "foo"}, {"~/b/foo", "foo"}, {"~/c/afoo", "afoo"}, {"~/x/sync", "sync"},
	{"~/d/bar", "foo"}, {"~/e/go-foo", "foo"}, {"~/e/foo", "foo"},
	{"~/v1/api", "api"}, {"~/v2/api", "api"}, {"~/1st/log", "log"}, {"~/2nd/log", "log"},
	{"~/dep/time", "time"}, {"~/yaml.v2", "yaml"}, {"~/Upper/Case", "kase"},
	{"~/names/s", "s"}, {"~/names/err", "err"}, {"~/names/mock", "mock"}, {"~/kw/type", "kw"},
	{"~/names/fooMoqParam", "fooMoqParam"}, {"~/names/n", "n"}, {"~/names/s1", "s1"}, {"~/names/s2", "s2"}, {"~/q/tri", "tri"}, {"~/apps/v1beta1", "apps"}, {"~/apps/v2", "apps"}, {"~/q/one", "one"}, {"~/q/two", "two"}, {"~/al/legacy", "legacy"},
}

var stdDeps = []dep{
	{"context", "context"}, {"io", "io"}, {"time", "time"}, {"sync", "sync"}, {"net/http", "http"},
	{"text/template", "template"}, {"html/template", "template"}, {"math/rand", "rand"},
	{"crypto/rand", "rand"}, {"unsafe", "unsafe"}, {"fmt", "fmt"}, {"os", "os"}, {"errors", "errors"},
	{"sort", "sort"}, {"strings", "strings"}, {"bytes", "bytes"},
}

func depPath(key string) string {
	if strings.HasPrefix(key, "~/") {
		return modPath + "/" + key[2:]
	}
	return key
}

func depName(key string) string {
	for _, d := range fixtureDeps {
		if d.Key == key {
			return d.Name
		}
	}
	for _, d := range stdDeps {
		if d.Key == key {
			return d.Name
		}
	}
	panic("unknown dep " + key)
}

func depBody(name string) string {
	return "package " + name + `

type T struct{ V int }

type I interface{ Do(T) T }

type G[X any] struct{ V X }

type Ord interface{ ~int | ~string }

type A = T

type B int

type E error

type F func(T) T

type S[X comparable] = map[X]struct{}

type Getter[X any] interface{ Get() X }
`
}

// Imp is an import of a source file. Alias: "" plain, "." dot, "_" blank, else explicit name.
type Imp struct {
	Key   string
	Alias string
}

// SrcFile is one file of a generated source package. In Decls a package reference is
// written @{key}.Name and is rendered according to the file's alias for that package.
type SrcFile struct {
	Name    string
	Aliases map[string]string // key -> alias mode for referenced packages
	Extra   []Imp             // extra imports (blank imports etc.)
	Decls   string
}

// IfaceCase is an interface under test inside a source package.
type IfaceCase struct {
	Name        string
	Src         string   // Go source of the declaration (for reports)
	Tags        []string // generator-provided feature tags
	InPlaceOnly bool     // mentions unexported identifiers: only in-place destinations are meaningful
	Scope       string
}

// SrcPkg is a generated source package.
type SrcPkg struct {
	Dir    string // relative to module root, e.g. "s/type1_0"
	Name   string
	Files  []SrcFile
	Ifaces []IfaceCase
	// VendorLayout: place the package under vendor/ (S-vendor); not used by default.
}

var refRe = regexp.MustCompile(`@\{([^}]+)\}\.`)

// effAliases returns the aliases in effect for the file: the explicit ones plus an
// automatic alias (<name>B, <name>C, …) for the later of two referenced packages that share a
// name and would otherwise clash in this file.
func (f SrcFile) effAliases() map[string]string {
	eff := map[string]string{}
	for k, v := range f.Aliases {
		eff[k] = v
	}
	var keys []string
	seenKey := map[string]bool{}
	for _, m := range refRe.FindAllStringSubmatch(f.Decls, -1) {
		if !seenKey[m[1]] {
			seenKey[m[1]] = true
			keys = append(keys, m[1])
		}
	}
	sort.Strings(keys)
	taken := map[string]int{}
	for _, k := range keys {
		q := eff[k]
		if q == "" {
			q = depName(k)
		}
		if q == "." {
			continue
		}
		taken[q]++
		if taken[q] > 1 && eff[k] == "" {
			eff[k] = fmt.Sprintf("%s%c", depName(k), 'A'+taken[q]-1)
		}
	}
	return eff
}

func (f SrcFile) render(pkgName string) string {
	used := map[string]bool{}
	f.Aliases = f.effAliases()
	body := refRe.ReplaceAllStringFunc(f.Decls, func(m string) string {
		key := refRe.FindStringSubmatch(m)[1]
		used[key] = true
		switch a := f.Aliases[key]; a {
		case "":
			return depName(key) + "."
		case ".":
			return ""
		default:
			return a + "."
		}
	})
	var keys []string
	for k := range used {
		keys = append(keys, k)
	}
	sort.Strings(keys)
	var b strings.Builder
	fmt.Fprintf(&b, "package %s\n\n", pkgName)
	if len(keys)+len(f.Extra) > 0 {
		b.WriteString("import (\n")
		for _, k := range keys {
			if a := f.Aliases[k]; a != "" {
				fmt.Fprintf(&b, "\t%s %q\n", a, depPath(k))
			} else {
				fmt.Fprintf(&b, "\t%q\n", depPath(k))
			}
		}
		for _, e := range f.Extra {
			if e.Alias != "" {
				fmt.Fprintf(&b, "\t%s %q\n", e.Alias, depPath(e.Key))
			} else {
				fmt.Fprintf(&b, "\t%q\n", depPath(e.Key))
			}
		}
		b.WriteString(")\n\n")
	}
	b.WriteString(body)
	return b.String()
}

// prelude declares the local types every source package has.
const prelude = `
type Loc struct{ V int }

type LocI interface{ LM(Loc) Loc }

type Error struct{ S string }

type Append struct{}

type Box[T any] struct{ V T }

type Num interface{ ~int | ~float64 }

type LocAlias = Loc

type KeyImpl string

func (k KeyImpl) String() string { return string(k) }

type Str interface{ String() string }

type config struct{ v int }

type String string

type Int int

type Gb[T any] interface{ Base(T) T }

type Ordered[T any] interface{ Less(T) bool }

type handler = func(int) error

type Panic func(v any)

type Nil struct{}

type locAlias = Loc
`

// Fixture is a materialised fixture module.
type Fixture struct {
	Root    string
	Pkgs    []*SrcPkg
	byDir   map[string]*SrcPkg
	exports map[string]string
	goroot  string
	Env     []string

	impMu sync.Mutex
	fset  *token.FileSet
	imp   types.Importer
	infos sync.Map // dir -> *SrcInfo
}

func writeFile(path, content string) {
	must(os.MkdirAll(filepath.Dir(path), 0o755))
	must(os.WriteFile(path, []byte(content), 0o644))
}

func must(err error) {
	if err != nil {
		panic(err)
	}
}

// NewFixture writes the module to root and resolves export data for all dependencies.
func NewFixture(root string, pkgs []*SrcPkg) *Fixture {
	fx := &Fixture{Root: root, Pkgs: pkgs, byDir: map[string]*SrcPkg{}, exports: map[string]string{}, fset: token.NewFileSet()}
	writeFile(filepath.Join(root, "go.mod"), "module "+modPath+"\n\ngo 1.24\n")
	for _, d := range fixtureDeps {
		rel := d.Key[2:]
		if d.Key == "~/q/tri" || d.Key == "~/al/legacy" {
			continue // written below with its own content
		}
		writeFile(filepath.Join(root, rel, "p.go"), depBody(d.Name))
	}
	// a third package whose interface mentions three same-named packages in ONE parameter type
	writeFile(filepath.Join(root, "q", "tri", "p.go"), "package tri\n\nimport (\n\taf \""+modPath+"/a/foo\"\n\tbf \""+modPath+"/b/foo\"\n\tdf \""+modPath+"/d/bar\"\n)\n\ntype Tri interface {\n\tTri(f func(af.T, bf.T) df.T) map[af.T]map[bf.T]df.T\n}\n")
	// a package that re-exports another package's types under alias declarations: the same
	// (types.Identical) type can then be spelled through two different packages
	writeFile(filepath.Join(root, "al", "legacy", "p.go"), "package legacy\n\nimport foo \""+modPath+"/a/foo\"\n\ntype T = foo.T\n\ntype I = foo.I\n\ntype Fn = func(foo.T) foo.T\n")
	for _, p := range pkgs {
		fx.writePkg(p)
	}
	fx.Env = fixtureEnv()
	fx.loadExports()
	fx.imp = importer.ForCompiler(fx.fset, "gc", func(path string) (io.ReadCloser, error) {
		f, ok := fx.exports[path]
		if !ok || f == "" {
			return nil, fmt.Errorf("verif: no export data for %q", path)
		}
		return os.Open(f)
	})
	return fx
}

func (fx *Fixture) writePkg(p *SrcPkg) {
	fx.byDir[p.Dir] = p
	dir := filepath.Join(fx.Root, p.Dir)
	writeFile(filepath.Join(dir, "prelude.go"), "package "+p.Name+"\n"+prelude)
	for _, f := range p.Files {
		writeFile(filepath.Join(dir, f.Name), f.render(p.Name))
	}
}

var (
	envOnce sync.Once
	envVal  []string
	goRoot  string
)

// fixtureEnv is the environment for every go command / moq run inside the fixture: the
// toolchain moq's go.mod selects is put first on PATH so that nested `go list` calls do
// not pay for (or depend on) toolchain switching.
func fixtureEnv() []string {
	envOnce.Do(func() {
		cmd := exec.Command("go", "env", "GOROOT")
		cmd.Dir = repoRoot
		cmd.Env = append(os.Environ(), "GOFLAGS=-mod=mod", "GOPROXY=off")
		out, err := cmd.Output()
		if err != nil {
			panic(fmt.Sprintf("go env GOROOT: %v", err))
		}
		goRoot = strings.TrimSpace(string(out))
		var env []string
		for _, e := range os.Environ() {
			if strings.HasPrefix(e, "PATH=") || strings.HasPrefix(e, "GOFLAGS=") || strings.HasPrefix(e, "GOTOOLCHAIN=") ||
				strings.HasPrefix(e, "GOROOT=") || strings.HasPrefix(e, "GO111MODULE=") || strings.HasPrefix(e, "GOWORK=") {
				continue
			}
			env = append(env, e)
		}
		env = append(env, "PATH="+goRoot+"/bin:"+os.Getenv("PATH"), "GOPROXY=off", "GOTOOLCHAIN=local", "GOFLAGS=", "GOWORK=off", "GO111MODULE=on")
		v := os.Getenv("VCHECK_CHILD_GOMAXPROCS")
		if v == "" {
			v = "1" // measured: 16 workers x single-threaded children beat oversubscription by 30%
		}
		if v != "0" {
			env = append(env, "GOMAXPROCS="+v)
		}
		envVal = env
	})
	return envVal
}

func (fx *Fixture) loadExports() {
	args := []string{"list", "-export", "-deps", "-json=ImportPath,Export"}
	for _, d := range fixtureDeps {
		args = append(args, depPath(d.Key))
	}
	for _, d := range stdDeps {
		args = append(args, d.Key)
	}
	cmd := exec.Command(goRoot+"/bin/go", args...)
	cmd.Dir = fx.Root
	cmd.Env = fx.Env
	var eb bytes.Buffer
	cmd.Stderr = &eb
	out, err := cmd.Output()
	if err != nil {
		panic(fmt.Sprintf("go list -export: %v\n%s", err, eb.String()))
	}
	dec := json.NewDecoder(bytes.NewReader(out))
	for dec.More() {
		var e struct{ ImportPath, Export string }
		must(dec.Decode(&e))
		fx.exports[e.ImportPath] = e.Export
	}
}

// lockedImporter serialises access to the shared gc importer and lets one path be
// overridden (the source package, when the output lives in another package).
type lockedImporter struct {
	fx       *Fixture
	override map[string]*types.Package
}

func (l lockedImporter) Import(path string) (*types.Package, error) {
	if p, ok := l.override[path]; ok {
		return p, nil
	}
	if path == "unsafe" {
		return types.Unsafe, nil
	}
	l.fx.impMu.Lock()
	defer l.fx.impMu.Unlock()
	return l.fx.imp.Import(path)
}

// SrcInfo is the oracle's own view of a source package (parsed and type-checked here,
// independently of moq).
type SrcInfo struct {
	Pkg   *SrcPkg
	Path  string
	Files []*ast.File
	Types *types.Package
	Info  *types.Info
	Err   error
}

func newInfo() *types.Info {
	return &types.Info{
		Types:      map[ast.Expr]types.TypeAndValue{},
		Defs:       map[*ast.Ident]types.Object{},
		Uses:       map[*ast.Ident]types.Object{},
		Selections: map[*ast.SelectorExpr]*types.Selection{},
		Scopes:     map[ast.Node]*types.Scope{},
		Implicits:  map[ast.Node]types.Object{},
		Instances:  map[*ast.Ident]types.Instance{},
	}
}

// Src returns the oracle's type-checked view of the source package in dir (cached).
func (fx *Fixture) Src(dir string) *SrcInfo {
	if v, ok := fx.infos.Load(dir); ok {
		return v.(*SrcInfo)
	}
	p := fx.byDir[dir]
	si := &SrcInfo{Pkg: p, Path: modPath + "/" + dir}
	abs := filepath.Join(fx.Root, dir)
	ents, _ := os.ReadDir(abs)
	for _, e := range ents {
		if e.IsDir() || !strings.HasSuffix(e.Name(), ".go") || strings.HasSuffix(e.Name(), "_test.go") {
			continue
		}
		fx.impMu.Lock()
		f, err := parser.ParseFile(fx.fset, filepath.Join(abs, e.Name()), nil, parser.ParseComments|parser.SkipObjectResolution)
		fx.impMu.Unlock()
		if err != nil {
			si.Err = err
			break
		}
		si.Files = append(si.Files, f)
	}
	if si.Err == nil {
		si.Info = newInfo()
		conf := types.Config{Importer: lockedImporter{fx: fx}}
		si.Types, si.Err = conf.Check(si.Path, fx.fset, si.Files, si.Info)
	}
	v, _ := fx.infos.LoadOrStore(dir, si)
	return v.(*SrcInfo)
}

// parse parses src with the fixture's file set (token.FileSet is safe for concurrent use).
func (fx *Fixture) parse(name string, src []byte) (*ast.File, error) {
	return parser.ParseFile(fx.fset, name, src, parser.ParseComments|parser.SkipObjectResolution)
}
