package main

// E2 regbfs: explicit-state search on the real internal/registry package. An in-package
// test file is added with `go test -overlay` (nothing is written to /repo); in order mode
// mechanically instrumented copies of the working-tree sources replace the originals in
// the same overlay.

import (
	"bytes"
	"encoding/json"
	"fmt"
	"go/ast"
	"go/printer"
	"go/token"
	"go/types"
	"os"
	"os/exec"
	"path/filepath"
	"sort"
	"strconv"
	"strings"
	"sync"

	"golang.org/x/tools/go/packages"
)

var e2TestFile = verifRoot + "/e2/regbfs_test.go.txt"

type e2Op struct {
	Kind   string `json:"kind"`
	Pkg    int    `json:"pkg,omitempty"`
	Name   string `json:"name,omitempty"`
	Type   string `json:"type,omitempty"`
	Suffix string `json:"suffix,omitempty"`
}

type e2Viol struct {
	Invariant string            `json:"invariant"`
	Seq       []e2Op            `json:"seq"`
	SeqText   []string          `json:"seq_text"`
	Detail    string            `json:"detail"`
	Aliases   map[string]string `json:"source_aliases,omitempty"`
}

type e2Prediction struct {
	Pkgs  []string          `json:"pkgs"`
	Quals map[string]string `json:"qualifiers"`
}

type e2Out struct {
	Mode        string         `json:"mode"`
	States      int            `json:"states"`
	Transitions int            `json:"transitions"`
	Sequences   int            `json:"sequences"`
	Depth       int            `json:"depth"`
	Violations  []e2Viol       `json:"violations"`
	Predictions []e2Prediction `json:"predictions"`
	Samples     []string       `json:"samples"`
}

type e2OrderFinding struct {
	Seq      []e2Op            `json:"seq"`
	SeqText  []string          `json:"seq_text"`
	Outcomes []string          `json:"outcomes"`
	Choices  [][]int           `json:"choices"`
	Aliases  map[string]string `json:"aliases,omitempty"`
}

type e2OrderOut struct {
	Findings    []e2OrderFinding `json:"findings"`
	Sequences   int              `json:"sequences"`
	Runs        int              `json:"runs"`
	Transitions int              `json:"transitions"`
	States      int              `json:"states"`
	Sites       map[string]int   `json:"sites"`
	Samples     []string         `json:"samples"`
	Depth       int              `json:"depth"`
	Dev         int              `json:"dev"`
}

// the registry-level package alphabet (must mirror e2Pkgs in the test file): index -> fixture key ("" = synthetic)
var e2PkgKeys = []string{"~/a/foo", "~/b/foo", "~/c/afoo", "~/x/sync", "sync", "~/d/bar", "~/e/go-foo", "~/e/foo", "~/v1/api", "~/v2/api",
	"~/1st/log", "~/2nd/log", "~/dep/time", "time", "~/yaml.v2", "~/names/s", "~/names/fooMoqParam", "~/names/err"}

func repoGoEnv(extra ...string) []string {
	var env []string
	for _, e := range os.Environ() {
		if strings.HasPrefix(e, "GOFLAGS=") || strings.HasPrefix(e, "GOPROXY=") || strings.HasPrefix(e, "GOTOOLCHAIN=") || strings.HasPrefix(e, "GOSUMDB=") {
			continue
		}
		env = append(env, e)
	}
	env = append(env, "GOFLAGS=-mod=mod", "GOPROXY=off")
	return append(env, extra...)
}

// instrumentMapRanges rewrites every range over a map in the non-test sources of
// internal/registry into a loop over verifOrder(site, keys). Returns overlay entries.
func instrumentMapRanges(work string) (map[string]string, int, error) {
	cfg := &packages.Config{Mode: packages.NeedName | packages.NeedFiles | packages.NeedSyntax | packages.NeedTypes | packages.NeedTypesInfo | packages.NeedCompiledGoFiles,
		Dir: repoRoot, Env: repoGoEnv()}
	pkgs, err := packages.Load(cfg, "./internal/registry")
	if err != nil || len(pkgs) != 1 || len(pkgs[0].Errors) > 0 {
		return nil, 0, fmt.Errorf("loading internal/registry: %v %v", err, pkgs)
	}
	p := pkgs[0]
	overlay := map[string]string{}
	sites := 0
	for i, f := range p.Syntax {
		fname := p.CompiledGoFiles[i]
		changed := false
		var firstErr error
		ast.Inspect(f, func(n ast.Node) bool {
			blk, ok := n.(*ast.BlockStmt)
			if !ok {
				return true
			}
			for si, st := range blk.List {
				rs, ok := st.(*ast.RangeStmt)
				if !ok {
					continue
				}
				mt, ok := p.TypesInfo.TypeOf(rs.X).Underlying().(*types.Map)
				if !ok {
					continue
				}
				if b, ok := mt.Key().Underlying().(*types.Basic); !ok || b.Kind() != types.String || rs.Tok != token.DEFINE {
					firstErr = fmt.Errorf("%s: range over a map that the instrumenter cannot rewrite", p.Fset.Position(rs.Pos()))
					continue
				}
				sites++
				changed = true
				keyName := "verifK"
				if id, ok := rs.Key.(*ast.Ident); ok && id.Name != "_" {
					keyName = id.Name
				}
				site := fmt.Sprintf("%s:%d", filepath.Base(fname), p.Fset.Position(rs.Pos()).Line)
				var body []ast.Stmt
				if id, ok := rs.Value.(*ast.Ident); ok && id.Name != "_" {
					body = append(body, &ast.AssignStmt{Lhs: []ast.Expr{ast.NewIdent(id.Name)}, Tok: token.DEFINE,
						Rhs: []ast.Expr{&ast.IndexExpr{X: rs.X, Index: ast.NewIdent(keyName)}}})
				}
				body = append(body, rs.Body.List...)
				blk.List[si] = &ast.RangeStmt{
					Key: ast.NewIdent("_"), Value: ast.NewIdent(keyName), Tok: token.DEFINE,
					X: &ast.CallExpr{Fun: ast.NewIdent("verifOrder"), Args: []ast.Expr{&ast.BasicLit{Kind: token.STRING, Value: strconv.Quote(site)},
						&ast.CallExpr{Fun: ast.NewIdent("verifKeys"), Args: []ast.Expr{rs.X}}}},
					Body: &ast.BlockStmt{List: body},
				}
			}
			return true
		})
		if firstErr != nil {
			return nil, 0, firstErr
		}
		if changed {
			var buf bytes.Buffer
			if err := printer.Fprint(&buf, p.Fset, f); err != nil {
				return nil, 0, err
			}
			out := filepath.Join(work, "instr_"+filepath.Base(fname))
			must(os.WriteFile(out, buf.Bytes(), 0o644))
			overlay[fname] = out
		}
	}
	// re-scan: no map range may be left
	helper := filepath.Join(work, "verif_keys_test.go")
	must(os.WriteFile(helper, []byte("//go:build verif\n\npackage registry\n\nfunc verifKeys[V any](m map[string]V) []string {\n\tks := make([]string, 0, len(m))\n\tfor k := range m {\n\t\tks = append(ks, k)\n\t}\n\treturn ks\n}\n"), 0o644))
	overlay[repoRoot+"/internal/registry/zz_verif_keys_test.go"] = helper
	return overlay, sites, nil
}

// e2Run executes one test of the overlay in /repo/internal/registry and returns the JSON
// between the markers. A crash of the test process is reported with the sequence in flight.
func e2Run(work, test string, overlay map[string]string, env []string) (raw []byte, inflight []e2Op, crash string) {
	ov := map[string]any{"Replace": overlay}
	b, _ := json.Marshal(ov)
	ovf := filepath.Join(work, fmt.Sprintf("overlay-%d.json", len(env)*1000+len(test)))
	f, err := os.CreateTemp(work, "overlay-*.json")
	must(err)
	ovf = f.Name()
	f.Write(b)
	f.Close()
	prog, err := os.CreateTemp(work, "progress-*.json")
	must(err)
	prog.Close()
	cmd := exec.Command("go", "test", "-overlay="+ovf, "-tags", "verif", "-vet=off", "-count=1", "-timeout", "60m", "-run", "^"+test+"$", "-v", "./internal/registry")
	cmd.Dir = repoRoot
	cmd.Env = repoGoEnv(append(env, "E2_PROGRESS="+prog.Name())...)
	var ob bytes.Buffer
	cmd.Stdout, cmd.Stderr = &ob, &ob
	runErr := cmd.Run()
	out := ob.Bytes()
	if i := bytes.Index(out, []byte("E2-BEGIN\n")); i >= 0 {
		if j := bytes.Index(out[i:], []byte("\nE2-END")); j >= 0 {
			return out[i+9 : i+j], nil, ""
		}
	}
	if runErr != nil {
		pb, _ := os.ReadFile(prog.Name())
		json.Unmarshal(pb, &inflight)
		if len(inflight) == 0 {
			fatalf("E2 test process failed outside a transition (build error?):\n%s", firstLines(ob.String(), 40))
		}
		return nil, inflight, firstLines(ob.String(), 12)
	}
	fatalf("E2 test produced no result:\n%s", firstLines(ob.String(), 30))
	return nil, nil, ""
}

func e2OpText(o e2Op) string {
	if o.Kind == "import" {
		return fmt.Sprintf("AddImport(#%d)", o.Pkg)
	}
	return fmt.Sprintf("AddVar(%q %s)", o.Name, o.Type)
}

// e2Sharded runs a BFS test over all shards, handling crashes: the sequence in flight is
// reported as a termination violation and blacklisted, then the shard is re-run.
func e2Sharded(work, test, mode string, depth int, overlay map[string]string, rep *Report, prop string, onOut func(raw []byte)) {
	shards := nproc()
	var mu sync.Mutex
	parallelDo(shards, shards, func(k int) {
		var black [][]e2Op
		for attempt := 0; attempt < 12; attempt++ {
			blf := filepath.Join(work, fmt.Sprintf("blacklist-%s-%d.json", mode, k))
			bb, _ := json.Marshal(black)
			must(os.WriteFile(blf, bb, 0o644))
			env := []string{"E2_MODE=" + mode, fmt.Sprintf("E2_DEPTH=%d", depth), fmt.Sprintf("E2_SHARD=%d", k), fmt.Sprintf("E2_OF=%d", shards), "E2_BLACKLIST=" + blf}
			raw, inflight, crash := e2Run(work, test, overlay, env)
			if raw != nil {
				mu.Lock()
				onOut(raw)
				mu.Unlock()
				return
			}
			black = append(black, inflight)
			var st []string
			for _, o := range inflight {
				st = append(st, e2OpText(o))
			}
			if prop == "C19" || prop == "C11" {
				mu.Lock()
				rep.Violate(&Violation{Diag: "registry: transition does not return (" + classifyDeath(crash) + ")", Case: "E2 " + mode + ": " + strings.Join(st, " ; "),
					Detail: crash, Features: e2Features(inflight), Replay: map[string]any{"engine": "E2", "mode": mode, "seq": inflight}})
				mu.Unlock()
			}
		}
		mu.Lock()
		rep.Cap(fmt.Sprintf("shard %d of %s gave up after 12 crashing transitions", k, mode))
		mu.Unlock()
	})
}

func e2Features(seq []e2Op) []string {
	var f []string
	for _, o := range seq {
		if o.Kind == "import" {
			f = append(f, fmt.Sprintf("e2pkg:%d", o.Pkg))
		} else {
			f = append(f, "e2var:"+o.Name, "e2type:"+o.Type)
			if o.Name == "" && o.Type == "string" {
				f = append(f, "e2auto:s") // the documented name of an unnamed string
			}
		}
	}
	return f
}

var e2InvariantProp = map[string][]string{
	"qualifier-not-unique": {"C11"}, "qualifier-not-identifier": {"C11"}, "vendor-prefix-kept": {"C11"}, "path-key-mismatch": {"C11"}, "alias-not-kept": {"C11"},
	"var-not-unique": {"C12"}, "var-not-identifier": {"C12"}, "var-reserved": {"C12"}, "var-shadows-qualifier": {"C12"},
}

func propIn(p string, l []string) bool {
	for _, x := range l {
		if x == p {
			return true
		}
	}
	return false
}

// e2Imports: BFS over AddImport sequences (C11, C19) + conformance of its predictions to
// the real load path.
func e2Imports(fx *Fixture, work string, rep *Report, prop string, depth int) {
	overlay := map[string]string{repoRoot + "/internal/registry/zz_verif_regbfs_test.go": e2TestFile}
	var preds []e2Prediction
	e2Sharded(work, "TestVerifRegBFS", "imports", depth, overlay, rep, prop, func(raw []byte) {
		var o e2Out
		if err := json.Unmarshal(raw, &o); err != nil {
			fatalf("E2 output: %v", err)
		}
		rep.Add("states", o.States)
		rep.Add("transitions", o.Transitions)
		preds = append(preds, o.Predictions...)
		for _, s := range o.Samples {
			rep.Sample(map[string]any{"leg": "registry BFS (imports)", "path": s})
		}
		for _, v := range o.Violations {
			if !propIn(prop, e2InvariantProp[v.Invariant]) {
				continue
			}
			feats := append(e2Features(v.Seq), "e2:imports")
			if len(v.Aliases) > 0 {
				feats = append(feats, "e2:source-aliases")
			}
			rep.Violate(&Violation{Diag: "registry: " + v.Invariant, Case: "E2 imports: " + strings.Join(v.SeqText, " ; ") + fmt.Sprintf(" (source aliases %v)", v.Aliases), Detail: v.Detail,
				Features: feats, Replay: map[string]any{"engine": "E2", "mode": "imports", "seq": v.Seq, "aliases": v.Aliases}})
		}
	})
	if fx == nil {
		return
	}
	// conformance: replay the predictions of on-disk sequences through the real generator
	sort.Slice(preds, func(i, j int) bool { return strings.Join(preds[i].Pkgs, ",") < strings.Join(preds[j].Pkgs, ",") })
	key := func(path string) string {
		if strings.HasPrefix(path, modPath+"/") {
			return "~/" + strings.TrimPrefix(path, modPath+"/")
		}
		return path
	}
	var pkgs []*SrcPkg
	for i, p := range preds {
		var sel []string
		for _, path := range p.Pkgs {
			sel = append(sel, key(path))
		}
		pkgs = append(pkgs, impPkg(fmt.Sprintf("s/e2conf_%d", i), sel, "plain"))
	}
	for _, p := range pkgs {
		fx.writePkg(p)
	}
	fx.Pkgs = append(fx.Pkgs, pkgs...)
	cases := casesFor(pkgs, []Cfg{{}}, "e2conf")
	validated, mismatches := 0, 0
	var mu sync.Mutex
	pool := NewPool(nproc(), fx.Env)
	reqs := make([]GenReq, len(cases))
	for i, c := range cases {
		reqs[i] = c.req(fx)
	}
	pool.Run(reqs, func(i int, resp GenResp) {
		if resp.Err != "" || resp.Died != "" || resp.Panic != "" {
			return
		}
		f, err := fx.parse("o.go", resp.Out)
		if err != nil {
			return
		}
		got := map[string]string{}
		for _, spec := range f.Imports {
			path, _ := strconv.Unquote(spec.Path.Value)
			q := ""
			if spec.Name != nil {
				q = spec.Name.Name
			}
			got[path] = q
		}
		mu.Lock()
		defer mu.Unlock()
		validated++
		for path, q := range preds[i].Quals {
			g, ok := got[path]
			name := ""
			for _, d := range append(append([]dep{}, fixtureDeps...), stdDeps...) {
				if depPath(d.Key) == path {
					name = d.Name
				}
			}
			if g == "" {
				g = name
			}
			if !ok || g != q {
				mismatches++
				if prop == "C11" {
					// both sides are the code under test (the registry's decision vs. what the
					// template rendered): a disagreement is a C11 violation, not a harness error
					rep.Violate(&Violation{Diag: "imports: the emitted import block disagrees with the registry's decision", Case: "E2 conformance: " + strings.Join(preds[i].Pkgs, " ; "),
						Detail:   fmt.Sprintf("registry qualifier for %s is %q, the generated file says %q (imports %v)", path, q, g, got),
						Features: []string{"e2:conformance"}, Replay: map[string]any{"engine": "E2", "mode": "conformance", "pkgs": preds[i].Pkgs}})
				}
			}
		}
	})
	rep.Add("traces_validated_against_impl", validated)
	rep.Set("conformance_mismatches", mismatches)
}

// e2Vars: all AddVar sequences in one scope (C12).
func e2Vars(work string, rep *Report, prop string, depth int) {
	overlay := map[string]string{repoRoot + "/internal/registry/zz_verif_regbfs_test.go": e2TestFile}
	e2Sharded(work, "TestVerifVarBFS", "vars", depth, overlay, rep, prop, func(raw []byte) {
		var o e2Out
		if err := json.Unmarshal(raw, &o); err != nil {
			fatalf("E2 output: %v", err)
		}
		rep.Add("states", o.States)
		rep.Add("transitions", o.Transitions)
		rep.Add("e2_var_sequences", o.Sequences)
		for _, s := range o.Samples {
			rep.Sample(map[string]any{"leg": "registry BFS (vars)", "path": s})
		}
		for _, v := range o.Violations {
			if !propIn(prop, e2InvariantProp[v.Invariant]) {
				continue
			}
			rep.Violate(&Violation{Diag: "scope: " + v.Invariant, Case: "E2 vars: " + strings.Join(v.SeqText, " ; "), Detail: v.Detail,
				Features: append(e2Features(v.Seq), "e2:vars"), Replay: map[string]any{"engine": "E2", "mode": "vars", "seq": v.Seq}})
		}
	})
}
