package main

import (
	"bytes"
	"fmt"
	"os"
	"path/filepath"
	"sort"
	"sync"
	"sync/atomic"
	"syscall"
	"time"
)

func parallelDo(n, workers int, fn func(i int)) {
	var wg sync.WaitGroup
	ch := make(chan int, 64)
	for w := 0; w < workers; w++ {
		wg.Add(1)
		go func() {
			defer wg.Done()
			for i := range ch {
				fn(i)
			}
		}()
	}
	for i := 0; i < n; i++ {
		ch <- i
	}
	close(ch)
	wg.Wait()
}

type refCache struct {
	mu sync.Mutex
	m  map[string][]byte
}

// reference returns the stdout-mode generation for flags+ifaces from a pristine tree.
func (rc *refCache) get(fx *Fixture, work string, version int, flags, ifaces []string) []byte {
	key := fmt.Sprint(version, flags, ifaces)
	rc.mu.Lock()
	b, ok := rc.m[key]
	rc.mu.Unlock()
	if ok {
		return b
	}
	sb := fx.newSandbox(work, version)
	defer sb.remove()
	args := append(append([]string{}, flags...), ".")
	args = append(args, ifaces...)
	r := fx.cli(sb.pkg, false, nil, args...)
	if r.Exit != 0 {
		b = nil
	} else {
		b = r.Stdout
	}
	rc.mu.Lock()
	rc.m[key] = b
	rc.mu.Unlock()
	return b
}

// e5Alphabet runs the failure alphabet; verdicts of property prop are reported.
func e5Alphabet(fx *Fixture, work string, rep *Report, prop string, thorough bool) {
	cases := e5Cases(thorough)
	rc := &refCache{m: map[string][]byte{}}
	var runs, failedRuns, okRuns int64
	outcomes := sync.Map{}
	parallelDo(len(cases), nproc(), func(i int) {
		c := &cases[i]
		sb := fx.newSandbox(work, c.Version)
		defer sb.remove()
		outArg, outAbs := c.prepare(sb)
		var ref []byte
		if !c.ExpectFail {
			ref = rc.get(fx, work, c.Version, c.Flags, c.Ifaces)
			if ref == nil {
				rep.Violate(&Violation{Diag: "cli: reference generation to standard output failed for a valid invocation", Case: c.String(), Features: []string{"e5:alphabet"}})
				return
			}
		}
		before := snapshotTree(sb.root)
		dir := sb.pkg
		if c.OutMode == "from-root" {
			dir = sb.root
		}
		var fifoData []byte
		fifoDone := make(chan bool, 1)
		stopFifo := make(chan bool)
		if c.OutMode == "fifo" {
			// reader on the other end: non-blocking open, drained until the process has exited
			go func() {
				f, err := os.OpenFile(outAbs, os.O_RDONLY|syscall.O_NONBLOCK, 0)
				if err != nil {
					fifoDone <- true
					return
				}
				defer f.Close()
				buf := make([]byte, 1<<16)
				stopped := false
				for {
					n, _ := f.Read(buf)
					if n > 0 {
						fifoData = append(fifoData, buf[:n]...)
						continue
					}
					if stopped {
						break
					}
					select {
					case <-stopFifo:
						stopped = true
					case <-time.After(5 * time.Millisecond):
					}
				}
				fifoDone <- true
			}()
			time.Sleep(20 * time.Millisecond)
		}
		r := fx.cli(dir, c.StdoutFull, nil, c.argv(outArg)...)
		if c.OutMode == "fifo" {
			close(stopFifo)
			<-fifoDone
			r.Fifo = fifoData
		}
		after := snapshotTree(sb.root)
		atomic.AddInt64(&runs, 1)
		if r.Exit != 0 {
			atomic.AddInt64(&failedRuns, 1)
		} else {
			atomic.AddInt64(&okRuns, 1)
		}
		outcomes.Store(fmt.Sprintf("%d|%s|%s", r.Exit, hashBytes(r.Stdout), rejectClass(string(r.Stderr))), true)
		if i < 3 || i == len(cases)/2 {
			rep.Sample(map[string]any{"leg": "alphabet", "case": c.String(), "exit": r.Exit, "stderr": firstLines(string(r.Stderr), 1), "tree_diff": diffTrees(before, after)})
		}
		for _, v := range c.judge(sb, before, after, r, outArg, outAbs, ref) {
			if v.Prop != prop {
				continue
			}
			feats := []string{"e5:alphabet", "out:" + c.OutMode, fmt.Sprintf("rm:%v", c.Rm), "why:" + c.Why}
			for _, a := range c.Ifaces {
				feats = append(feats, "arg:"+a)
			}
			rep.Violate(&Violation{Diag: v.Diag, Case: c.String(), Detail: v.Detail, Features: feats,
				Replay: map[string]any{"engine": "E5", "leg": "alphabet", "case": c}})
		}
	})
	n := 0
	outcomes.Range(func(k, v any) bool { n++; return true })
	rep.Add("evaluations", int(runs))
	rep.Add("distinct_nontrivial", n)
	rep.Set("alphabet_runs", int(runs))
	rep.Set("alphabet_runs_failed_as_expected_or_not", int(failedRuns))
	rep.Set("alphabet_runs_succeeded", int(okRuns))
}

// e5Faults enumerates every (syscall, path) fault point of the fault-free history × errno.
func e5Faults(fx *Fixture, work string, rep *Report, prop string, thorough bool) {
	type scen struct {
		mode string
		rm   bool
		fl   []string
	}
	var scens []scen
	flagSets := [][]string{{}, {"-stub", "-with-resets", "-pkg", "other"}}
	if thorough {
		flagSets = append(flagSets, []string{"-fmt", "noop", "-skip-ensure"}, []string{"-fmt", "goimports"})
	}
	for _, m := range []string{"new", "existing", "deep"} {
		for _, rm := range []bool{false, true} {
			for _, fl := range flagSets {
				scens = append(scens, scen{m, rm, fl})
			}
		}
	}
	type job struct {
		sc scen
		fp faultPoint
		en string
	}
	var jobs []job
	var mu sync.Mutex
	points := 0
	var dupNotes []string
	setup := func(sb *e5Sandbox, sc scen) (outArg, outAbs string, watch []string) {
		gen := filepath.Join(sb.pkg, "gen")
		switch sc.mode {
		case "new":
			must(os.MkdirAll(gen, 0o755))
			outArg = filepath.Join("gen", "out_moq.go")
		case "existing":
			outArg = filepath.Join("gen", "out_moq.go")
			writeFile(filepath.Join(sb.pkg, outArg), oldContent)
		case "deep":
			outArg = filepath.Join("gen", "deeper", "out_moq.go")
		}
		outAbs = filepath.Join(sb.pkg, outArg)
		watch = []string{outAbs}
		for d := filepath.Dir(outAbs); d != sb.pkg; d = filepath.Dir(d) {
			watch = append(watch, d)
		}
		return
	}
	argv := func(sc scen, outArg string) []string {
		a := append([]string{}, sc.fl...)
		a = append(a, "-out", outArg)
		if sc.rm {
			a = append(a, "-rm")
		}
		return append(a, ".", "A", "B")
	}
	// 1. fault-free histories
	parallelDo(len(scens), nproc(), func(i int) {
		sc := scens[i]
		sb := fx.newSandbox(work, 1)
		defer sb.remove()
		outArg, _, watch := setup(sb, sc)
		pts, r, dups := fx.recordHistory(sb, watch, argv(sc, outArg))
		if r.Exit != 0 {
			fatalf("fault-free run under strace failed: %s", r.Stderr)
		}
		mu.Lock()
		defer mu.Unlock()
		if dups != "" {
			dupNotes = append(dupNotes, fmt.Sprintf("%v: %s", sc, dups))
		}
		for _, fp := range pts {
			rel, _ := filepath.Rel(sb.pkg, fp.Path)
			points++
			for _, en := range errnos {
				jobs = append(jobs, job{sc, faultPoint{fp.Syscall, rel}, en})
			}
		}
		if i == 0 {
			var h []string
			for _, fp := range pts {
				rel, _ := filepath.Rel(sb.pkg, fp.Path)
				h = append(h, fp.Syscall+"("+rel+")")
			}
			rep.Sample(map[string]any{"leg": "fault-free syscall history on the -out path", "scenario": fmt.Sprint(sc), "history": h})
		}
	})
	sort.Slice(jobs, func(i, j int) bool { return fmt.Sprint(jobs[i]) < fmt.Sprint(jobs[j]) })
	// 2. inject every fault
	var runs int64
	outcomes := sync.Map{}
	parallelDo(len(jobs), nproc(), func(i int) {
		j := jobs[i]
		sb := fx.newSandbox(work, 1)
		defer sb.remove()
		outArg, outAbs, _ := setup(sb, j.sc)
		target := filepath.Join(sb.pkg, j.fp.Path)
		wrap := []string{"strace", "-f", "-qq", "-o", "/dev/null", "-P", target, "-e", "trace=" + j.fp.Syscall, "-e", "inject=" + j.fp.Syscall + ":error=" + j.en + ":when=1"}
		before := snapshotTree(sb.root)
		r := fx.cli(sb.pkg, false, wrap, argv(j.sc, outArg)...)
		after := snapshotTree(sb.root)
		atomic.AddInt64(&runs, 1)
		outcomes.Store(fmt.Sprintf("%s|%s|%d|%v", j.fp.Syscall, j.en, r.Exit, diffTrees(before, after)), true)
		c := &e5Case{Desc: fmt.Sprintf("injected %s on %s(%s)", j.en, j.fp.Syscall, j.fp.Path), Version: 1, OutMode: "fault:" + j.sc.mode, Rm: j.sc.rm, Flags: j.sc.fl, SrcDir: ".",
			Ifaces: []string{"A", "B"}, ExpectFail: true, Why: "injected " + j.en}
		if i%97 == 0 {
			rep.Sample(map[string]any{"leg": "fault", "case": c.String(), "exit": r.Exit, "stderr": firstLines(string(r.Stderr), 1), "tree_diff": diffTrees(before, after)})
		}
		for _, v := range c.judge(sb, before, after, r, outArg, outAbs, nil) {
			if v.Prop != prop {
				continue
			}
			rep.Violate(&Violation{Diag: v.Diag, Case: c.String(), Detail: v.Detail,
				Features: []string{"e5:fault", "fault:" + j.fp.Syscall, "errno:" + j.en, "out:" + j.sc.mode, fmt.Sprintf("rm:%v", j.sc.rm)},
				Replay:   map[string]any{"engine": "E5", "leg": "fault", "scenario": fmt.Sprint(j.sc), "syscall": j.fp.Syscall, "path": j.fp.Path, "errno": j.en}})
		}
	})
	n := 0
	outcomes.Range(func(k, v any) bool { n++; return true })
	rep.Add("evaluations", int(runs))
	rep.Add("distinct_nontrivial", n)
	rep.Set("fault_points", points)
	rep.Set("fault_runs", int(runs))
	rep.Set("errnos", errnos)
	if len(dupNotes) > 0 {
		rep.Set("repeated_syscall_path_pairs", dupNotes)
		rep.Cap("some (syscall, path) pairs occur more than once in a history; only the first occurrence is injected")
	}
}

// e5Library: Mocker.Mock with a writer that accepts b bytes and then fails, for every b;
// and with the k-th of n arguments bad.
func e5Library(fx *Fixture, work string, rep *Report) {
	sp := &SrcPkg{Dir: "s/lib", Name: "lib", Files: []SrcFile{{Name: "l.go", Decls: "type A interface{ M(x @{~/a/foo}.T, s string) error }\n\ntype E interface{}\n\ntype S struct{}\n"}},
		Ifaces: []IfaceCase{{Name: "A"}, {Name: "E"}}}
	fx.writePkg(sp)
	pool := NewPool(nproc(), fx.Env)
	base := func(args ...string) GenReq {
		return GenReq{Dir: filepath.Join(fx.Root, sp.Dir), Cwd: filepath.Join(fx.Root, sp.Dir), Args: args, FailAfter: -1}
	}
	var reqs []GenReq
	var desc []string
	var fulls [][]byte
	var fullOf []int
	for fi, fm := range []string{"", "noop", "goimports"} {
		rq := base("A", "E")
		rq.Formatter = fm
		full := pool.Fresh(rq)
		if full.Err != "" || len(full.Out) == 0 {
			fatalf("library leg: reference generation failed: %s", full.Err)
		}
		fulls = append(fulls, full.Out)
		step := 1
		if fi > 0 {
			step = 7 // every 7th position for the other two formatters (plus the ends)
		}
		for b := 0; b <= len(full.Out); b++ {
			if b%step != 0 && b < len(full.Out)-2 {
				continue
			}
			r := base("A", "E")
			r.Formatter = fm
			r.FailAfter = b
			reqs = append(reqs, r)
			fullOf = append(fullOf, fi)
			desc = append(desc, fmt.Sprintf("-fmt %q, writer fails after %d of %d bytes", fm, b, len(full.Out)))
		}
	}
	nWriter := len(reqs)
	bad := [][]string{{"Nope"}, {"A", "Nope"}, {"Nope", "A"}, {"A", "E", "S"}, {"A", "S", "E"}, {"S", "A", "E"}, {"A", ""}, {"A:"}, {"A", "E:1x"}}
	for _, l := range bad {
		r := base(l...)
		r.FailAfter = 1 << 30
		reqs = append(reqs, r)
		desc = append(desc, fmt.Sprintf("bad argument list %q", l))
	}
	var mu sync.Mutex
	pool.Run(reqs, func(i int, resp GenResp) {
		c := "library: Mocker.Mock, " + desc[i]
		viol := func(diag, detail string) {
			mu.Lock()
			defer mu.Unlock()
			rep.Violate(&Violation{Diag: diag, Case: c, Detail: detail, Features: []string{"e5:library"}, Replay: map[string]any{"engine": "E5", "leg": "library", "request": reqs[i]}})
		}
		if resp.Died != "" || resp.Panic != "" {
			return // C19's
		}
		if i < nWriter {
			full := struct{ Out []byte }{fulls[fullOf[i]]}
			if reqs[i].FailAfter == len(full.Out) { // the writer accepts everything
				if resp.Err != "" || !bytes.Equal(resp.Out, full.Out) {
					viol("library: a writer that accepts the whole file did not receive exactly the file", resp.Err)
				}
				return
			}
			if resp.Err == "" {
				viol("library: Mock returned nil although the writer failed", "")
			}
			if resp.Writes != 1 {
				viol("library: the output was not written with exactly one Write call", fmt.Sprint(resp.Writes))
			}
			if !bytes.HasPrefix(full.Out, resp.Out) {
				viol("library: bytes that reached the failing writer are not a prefix of the file", "")
			}
		} else {
			if resp.Err == "" {
				viol("library: Mock succeeded on a bad argument list", "")
			}
			if resp.Writes != 0 || len(resp.Out) != 0 {
				viol("library: something was written although an argument was bad", fmt.Sprintf("%d writes, %d bytes", resp.Writes, len(resp.Out)))
			}
		}
	})
	rep.Add("evaluations", len(reqs))
	rep.Add("distinct_nontrivial", nWriter)
	rep.Set("library_writer_failure_positions", nWriter)
	rep.Sample(map[string]any{"leg": "library", "case": desc[nWriter/2]})
}

func runE5(prop, tier string) int {
	level := "fault_enumeration"
	if prop == "C15" {
		level = "model_checking"
	}
	rep := NewReport(prop, tier, level, "E5")
	work := workDir()
	defer cleanup(work)
	fx := NewFixture(work+"/fx", nil)
	thorough := tier == "thorough"
	switch prop {
	case "C17":
		e5Alphabet(fx, work, rep, prop, thorough)
		e5Faults(fx, work, rep, prop, thorough)
		e5Library(fx, work, rep)
		rep.Set("rule", "every case of the failure alphabet (k-th of n argument bad for 13 kinds of bad argument, 4 unloadable packages, too few arguments, 8 prior states of the -out path, -rm, 4 flag sets, stdout not writable), every (syscall, path) fault point of the fault-free history on the -out path and its ancestors × 4 errnos, and a writer failing after b bytes for every b; distinct = distinct (exit, stdout hash, diagnostic class, tree diff) outcomes")
	case "C18":
		e5Alphabet(fx, work, rep, prop, thorough)
		e5Faults(fx, work, rep, prop, thorough)
		rep.Set("rule", "same runs as C17 (successful and failing, injected faults included); oracle: recursive (path, mode, sha256) snapshot of the whole scratch module before/after differs at most in the -out path and newly created ancestor directories (nothing at all without -out or when the run fails)")
	}
	rep.Assume = []string{"strace -f -P <path> -e inject=<syscall>:error=<errno>:when=1 fails exactly the first such syscall on that path", "errno-level faults only (no torn writes / power loss)", "mtime is not judged"}
	return rep.Finish()
}

// cliFlagSequences: two runs with different flag sets on the same -out path (no -rm); the file
// must then be exactly what the second flag set generates (a run must not be skipped or
// influenced because "the file is already there").
func cliFlagSequences(fx *Fixture, work string, rep *Report, diagPrefix string) {
	flagSets := [][]string{{}, {"-stub"}, {"-with-resets"}, {"-stub", "-with-resets"}, {"-skip-ensure", "-pkg", "cli_test"}}
	ifsets := [][]string{{"A"}, {"A", "B", "E"}}
	type sq struct {
		a, b int
		ifs  []string
	}
	var sqs []sq
	for _, ifs := range ifsets {
		for a := range flagSets {
			for b := range flagSets {
				if a != b {
					sqs = append(sqs, sq{a, b, ifs})
				}
			}
		}
	}
	var runs int64
	parallelDo(len(sqs), nproc(), func(i int) {
		s := sqs[i]
		sb := fx.newSandbox(work, 1)
		defer sb.remove()
		out := "seq_moq_test.go"
		mk := func(fl []string, toFile bool) []string {
			a := append([]string{}, fl...)
			if toFile {
				a = append(a, "-out", out)
			}
			return append(append(a, "."), s.ifs...)
		}
		r1 := fx.cli(sb.pkg, false, nil, mk(flagSets[s.a], true)...)
		r2 := fx.cli(sb.pkg, false, nil, mk(flagSets[s.b], true)...)
		got, _ := os.ReadFile(filepath.Join(sb.pkg, out))
		os.Remove(filepath.Join(sb.pkg, out))
		ref := fx.cli(sb.pkg, false, nil, mk(flagSets[s.b], false)...)
		atomic.AddInt64(&runs, 3)
		if r1.Exit != 0 || r2.Exit != 0 || ref.Exit != 0 || !bytes.Equal(got, ref.Stdout) {
			rep.Violate(&Violation{Diag: diagPrefix + "a run with other flags over an existing -out file does not leave its own output", Features: []string{"e5:flag-sequence"},
				Case:   fmt.Sprintf("moq %v -out F . %v ; moq %v -out F . %v", flagSets[s.a], s.ifs, flagSets[s.b], s.ifs),
				Detail: fmt.Sprintf("exit codes %d %d %d; file has %d bytes, the second flag set generates %d bytes", r1.Exit, r2.Exit, ref.Exit, len(got), len(ref.Stdout))})
		}
	})
	rep.Add("evaluations", int(runs))
	rep.Set("flag_sequence_pairs", len(sqs))
}
