package main

// CLI parity leg: every case of S-cfg × all 192 configurations is generated a second time
// through the moq binary (standard output mode) and must be byte-identical to what the
// library produced for the same configuration. This is what covers main.go's flag
// plumbing (-stub, -skip-ensure, -with-resets, -pkg, -fmt reach the generator unchanged).

import (
	"bytes"
	"fmt"
	"path/filepath"
	"sync"
	"sync/atomic"
)

func cliArgs(c *Case, srcName string) []string {
	var a []string
	if c.Cfg.Stub {
		a = append(a, "-stub")
	}
	if c.Cfg.Skip {
		a = append(a, "-skip-ensure")
	}
	if c.Cfg.Resets {
		a = append(a, "-with-resets")
	}
	if p := c.pkgFlag(srcName); p != "" {
		a = append(a, "-pkg", p)
	}
	if f := fmtNames[c.Cfg.Fmt]; f != "" {
		a = append(a, "-fmt", f)
	}
	a = append(a, ".")
	return append(a, c.args()...)
}

// cliParity runs the cases through the library and the CLI and compares.
func cliParity(fx *Fixture, cases []*Case, rep *Report, diagPrefix string) {
	pool := NewPool(nproc(), fx.Env)
	reqs := make([]GenReq, len(cases))
	for i, c := range cases {
		reqs[i] = c.req(fx)
	}
	lib := make([]GenResp, len(cases))
	pool.Run(reqs, func(i int, r GenResp) { lib[i] = r })
	var compared, mism int64
	var mu sync.Mutex
	parallelDo(len(cases), nproc(), func(i int) {
		c := cases[i]
		sp := fx.byDir[c.Dir]
		r := fx.cli(filepath.Join(fx.Root, c.Dir), false, nil, cliArgs(c, sp.Name)...)
		l := lib[i]
		if l.Died != "" || l.Panic != "" {
			return
		}
		atomic.AddInt64(&compared, 1)
		libOK := l.Err == ""
		cliOK := r.Exit == 0
		if libOK != cliOK || (libOK && !bytes.Equal(l.Out, r.Stdout)) {
			atomic.AddInt64(&mism, 1)
			res := &Result{Case: c, Resp: l, Fx: fx, Src: fx.Src(c.Dir)}
			mu.Lock()
			rep.Violate(res.viol(diagPrefix+"the moq command and the library disagree for the same configuration (flag plumbing)",
				fmt.Sprintf("moq %v: exit %d, %d bytes on stdout; library: err=%q, %d bytes", cliArgs(c, sp.Name), r.Exit, len(r.Stdout), l.Err, len(l.Out))))
			mu.Unlock()
		}
	})
	rep.Add("evaluations", int(compared))
	rep.Set("cli_parity_comparisons", int(compared))
	rep.Set("cli_parity_mismatches", int(mism))
}
