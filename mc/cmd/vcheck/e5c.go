package main

// C15: explicit-state search over the states of the -out path.

import (
	"bytes"
	"fmt"
	"os"
	"path/filepath"
	"sort"
	"strings"
	"sync"
)

type fsState struct {
	Kind    string // "absent", "dir", "file"
	Content []byte
	Version int
}

func (s fsState) key() string {
	if s.Kind == "file" {
		return fmt.Sprintf("file:%s|v%d", hashBytes(s.Content), s.Version)
	}
	return fmt.Sprintf("%s|v%d", s.Kind, s.Version)
}

type fsMachine struct {
	File   string
	Ifaces []string
	Flags  []string
	Style  string // how the source dir and -out are spelled: "rel" (both relative), "abs-out", "abs-src"
}

func (m fsMachine) String() string {
	return fmt.Sprintf("moq %s -out %s . %s  [paths: %s]", strings.Join(m.Flags, " "), m.File, strings.Join(m.Ifaces, " "), m.Style)
}

// spell returns the -out value and the source-dir argument for a sandbox.
func (m fsMachine) spell(sb *e5Sandbox) (out, src string) {
	switch m.Style {
	case "abs-out":
		return filepath.Join(sb.pkg, m.File), "."
	case "abs-src":
		return m.File, sb.pkg
	}
	return m.File, "."
}

type fsTransition struct {
	Name string
	// apply mutates a materialised sandbox and reports (ran the CLI, result)
}

var clobbers = map[string][]byte{
	"clobber:empty":            {},
	"clobber:garbage":          []byte("\x00\x01 this is not Go \xff\n"),
	"clobber:otherpkg":         []byte("package somethingelse\n\nvar X = 1\n"),
	"clobber:broken":           []byte("package cli\n\nfunc broken( {\n"),
	"clobber:stale-type-error": []byte("package cli\n\nvar _ A = 42\n"),
}

func (fx *Fixture) materialise(work string, st fsState, m fsMachine) (*e5Sandbox, string) {
	sb := fx.newSandbox(work, st.Version)
	p := filepath.Join(sb.pkg, m.File)
	switch st.Kind {
	case "dir":
		must(os.MkdirAll(p, 0o755))
	case "file":
		must(os.WriteFile(p, st.Content, 0o600))
	}
	return sb, p
}

func readState(p string, version int) fsState {
	info, err := os.Lstat(p)
	if err != nil {
		return fsState{Kind: "absent", Version: version}
	}
	if info.IsDir() {
		return fsState{Kind: "dir", Version: version}
	}
	b, _ := os.ReadFile(p)
	return fsState{Kind: "file", Content: b, Version: version}
}

func runC15(tier string) int {
	rep := NewReport("C15", tier, "model_checking", "E5")
	work := workDir()
	defer cleanup(work)
	fx := NewFixture(work+"/fx", nil)
	depth := 3
	var machines []fsMachine
	files := []string{"x_moq.go", "x_moq_test.go"}
	ifsets := [][]string{{"A"}, {"A", "B"}, {"B", "A:Custom", "G"}, {"Z", "Y", "A"}}
	flagsets := [][]string{{}, {"-stub", "-with-resets"}, {"-pkg", "cli"}}
	if tier == "thorough" {
		depth = 4
		flagsets = append(flagsets, []string{"-fmt", "goimports"}, []string{"-fmt", "noop", "-skip-ensure"})
		ifsets = append(ifsets, []string{"G", "E", "B"})
	}
	ifsets = append(ifsets, []string{"A", "W"}, []string{"A", "CC"}, []string{"M1", "M2"}, []string{"M2", "A", "M1"})
	for _, f := range files {
		for _, is := range ifsets {
			for _, fl := range flagsets {
				machines = append(machines, fsMachine{f, is, fl, "rel"})
			}
		}
		machines = append(machines, fsMachine{f, []string{"A", "B"}, nil, "abs-out"}, fsMachine{f, []string{"A", "B"}, nil, "abs-src"})
	}
	var mu sync.Mutex
	totalStates, totalTrans, cliRuns := 0, 0, 0
	var samples []any
	parallelDo(len(machines), nproc(), func(mi int) {
		m := machines[mi]
		// pristine generations per version (from a tree without the output file)
		pristine := map[int][]byte{}
		for v := 1; v <= 2; v++ {
			sb, p := fx.materialise(work, fsState{Kind: "absent", Version: v}, m)
			o, sd := m.spell(sb)
			args := append(append([]string{}, m.Flags...), "-out", o, sd)
			r := fx.cli(sb.pkg, false, nil, append(args, m.Ifaces...)...)
			if r.Exit == 0 {
				pristine[v], _ = os.ReadFile(p)
			}
			sb.remove()
			if pristine[v] == nil {
				mu.Lock()
				rep.Violate(&Violation{Diag: "regen: generation from the pristine tree failed", Case: m.String(), Detail: string(r.Stderr), Features: []string{"e5:c15"}})
				mu.Unlock()
				return
			}
		}
		// a second command on the same -out path: the same generation with -fmt noop
		hasFmt := false
		for _, f := range m.Flags {
			if f == "-fmt" {
				hasFmt = true
			}
		}
		pristineNoop := map[int][]byte{}
		trans := []string{"moq", "moq -rm", "edit:v1", "edit:v2"}
		if !hasFmt {
			trans = append(trans, "moq -fmt noop")
			for v := 1; v <= 2; v++ {
				sb, p := fx.materialise(work, fsState{Kind: "absent", Version: v}, m)
				o, sd := m.spell(sb)
				args := append(append([]string{}, m.Flags...), "-fmt", "noop", "-out", o, sd)
				if r := fx.cli(sb.pkg, false, nil, append(args, m.Ifaces...)...); r.Exit == 0 {
					pristineNoop[v], _ = os.ReadFile(p)
				}
				sb.remove()
			}
		}
		var cl []string
		for k := range clobbers {
			cl = append(cl, k)
		}
		sort.Strings(cl)
		trans = append(trans, cl...)
		trans = append(trans, "clobber:emptydir", "delete")
		init := fsState{Kind: "absent", Version: 1}
		seen := map[string]bool{init.key(): true}
		type node struct {
			st   fsState
			path []string
		}
		frontier := []node{{init, nil}}
		states, transitions, runs := 1, 0, 0
		for d := 0; d < depth; d++ {
			var next []node
			for _, nd := range frontier {
				for _, t := range trans {
					var ns fsState
					switch {
					case t == "edit:v1" || t == "edit:v2":
						ns = nd.st
						ns.Version = int(t[len(t)-1] - '0')
					case t == "delete":
						ns = fsState{Kind: "absent", Version: nd.st.Version}
					case t == "clobber:emptydir":
						ns = fsState{Kind: "dir", Version: nd.st.Version}
					case strings.HasPrefix(t, "clobber:"):
						ns = fsState{Kind: "file", Content: clobbers[t], Version: nd.st.Version}
					default: // a real CLI run
						sb, p := fx.materialise(work, nd.st, m)
						o, sd := m.spell(sb)
						args := append([]string{}, m.Flags...)
						if t == "moq -fmt noop" {
							args = append(args, "-fmt", "noop")
						}
						args = append(args, "-out", o)
						if t == "moq -rm" {
							args = append(args, "-rm")
						}
						args = append(args, sd)
						r := fx.cli(sb.pkg, false, nil, append(args, m.Ifaces...)...)
						runs++
						ns = readState(p, nd.st.Version)
						sb.remove()
						want := pristine[nd.st.Version]
						if t == "moq -fmt noop" {
							want = pristineNoop[nd.st.Version]
						}
						path := append(append([]string{}, nd.path...), t)
						viol := func(diag, detail string) {
							mu.Lock()
							defer mu.Unlock()
							rep.Violate(&Violation{Diag: diag, Case: m.String() + " :: " + strings.Join(path, " → ") + "  (from state " + nd.st.key() + ")", Detail: detail,
								Features: []string{"e5:c15", "file:" + m.File}, Replay: map[string]any{"engine": "E5", "leg": "c15", "machine": m, "path": path}})
						}
						if t == "moq -rm" {
							// independent of whatever was there
							if r.Exit != 0 {
								viol("regen: moq -rm failed although the old file is removed before loading", firstLines(string(r.Stderr), 4))
							} else if ns.Kind != "file" || !bytes.Equal(ns.Content, want) {
								viol("regen: result of moq -rm depends on the previous content of the -out path", "")
							}
						} else {
							ownUpToDate := nd.st.Kind == "file" && bytes.Equal(nd.st.Content, want)
							if ownUpToDate {
								if r.Exit != 0 {
									viol("regen: moq fails when its own up-to-date output is left in place", firstLines(string(r.Stderr), 4))
								} else if !bytes.Equal(ns.Content, want) {
									viol("regen: moq's own output is not a fixed point (second run gives different bytes)", "")
								}
							} else if r.Exit == 0 && (ns.Kind != "file" || !bytes.Equal(ns.Content, want)) {
								viol("regen: a successful run over a stale/foreign file gives bytes different from the pristine generation", "")
							}
						}
					}
					transitions++
					if !seen[ns.key()] {
						seen[ns.key()] = true
						states++
						next = append(next, node{ns, append(append([]string{}, nd.path...), t)})
					}
				}
			}
			frontier = next
		}
		mu.Lock()
		totalStates += states
		totalTrans += transitions
		cliRuns += runs
		if len(samples) < 4 {
			var ks []string
			for k := range seen {
				ks = append(ks, k)
			}
			sort.Strings(ks)
			samples = append(samples, map[string]any{"machine": m.String(), "states": ks, "transitions": transitions})
		}
		mu.Unlock()
	})
	cliFlagSequences(fx, work, rep, "regen: ")
	rep.Set("states", totalStates)
	rep.Set("transitions", totalTrans)
	rep.Set("traces_validated_against_impl", cliRuns)
	rep.Add("evaluations", cliRuns)
	rep.Set("distinct_nontrivial", totalStates)
	rep.Set("machines", len(machines))
	rep.Set("samples", samples)
	rep.Set("bounds", map[string]any{"bfs_depth": depth, "file_names": files, "interface_sets": ifsets, "flag_sets": flagsets})
	rep.Set("rule", "breadth-first search over (content of the -out path, interface version) under {moq, moq -rm, edit interface to v1/v2, clobber with empty/garbage/other-package/broken/stale content, replace by empty directory, delete}; every moq transition runs the real binary in a fresh copy of the module materialised in that state; state identity = hash of the file bytes; oracles: own up-to-date output is a fixed point (bytes), moq -rm always succeeds and gives the pristine generation")
	rep.Assume = []string{"the state of the -out path is fully described by its bytes / kind", "x_moq.go is loaded with the package on the next run, x_moq_test.go is not"}
	return rep.Finish()
}
