package main

// E5 clifs: the moq CLI (built from /repo) driven through (a) the complete failure
// alphabet × prior states of the -out path × -rm × flag sets, (b) every syscall fault
// point × errno on the -out path and its ancestors (strace fault injection), (c) a writer
// that fails after b bytes for every b (library leg), (d) a BFS over the states of the
// -out path under {moq, moq -rm, edit interface, clobber file} (C15).

import (
	"bytes"
	"crypto/sha256"
	"encoding/hex"
	"fmt"
	"io/fs"
	"os"
	"os/exec"
	"path/filepath"
	"regexp"
	"sort"
	"strings"
	"sync"
	"syscall"
	"time"
)

const cliSrcV1 = `package cli

import "example.com/m/a/foo"

type A interface {
	M(x foo.T, s string) error
}

type G[T any] interface{ Get(T) T }

type S struct{}

func F() {}

const C = 1

var V error

type NotI int

type GS[T any] struct{}

type E interface{}

// a parameter spelled like the mock type moq generates for A
type W interface {
	Attach(AMock int, other string)
}

type Num interface{ ~int | ~float64 }

type Cmp interface{ comparable }
`

const cliSrcB = `package cli

import "example.com/m/b/foo"

type B interface {
	N(y foo.T) foo.T
}
`

// version 2 of interface A (a method added, a parameter type changed)
var cliSrcV2 = strings.Replace(cliSrcV1, "M(x foo.T, s string) error\n", "M(x *foo.T, s string) error\n\tM2(n int)\n", 1)

// sorted after x_moq.go; one of two same-named packages (v1/api, v2/api) is aliased here
const cliSrcZ = `package cli

import zapi "example.com/m/v2/api"

type Z interface {
	Zed(z zapi.T) zapi.T
}
`

const cliSrcY = `package cli

import "example.com/m/v1/api"

type Y interface {
	Why(y api.T) api.T
}
`

// a package named foo that lives in a directory called bar
const cliSrcC = `package cli

import "example.com/m/d/bar"

type CC interface {
	Cee(c foo.T) foo.T
}
`

// two files use the same alias for two different packages
const cliSrcM1 = `package cli

import model "example.com/m/q/one"

type M1 interface {
	One(x model.T) model.T
}
`

const cliSrcM2 = `package cli

import model "example.com/m/q/two"

type M2 interface {
	Two(y model.T) model.T
}
`

const cliSub = "package sub\n\ntype T struct{}\n"

type treeEntry struct {
	Mode fs.FileMode
	Sum  string
	Link string
}

func snapshotTree(root string) map[string]treeEntry {
	out := map[string]treeEntry{}
	filepath.Walk(root, func(p string, info fs.FileInfo, err error) error {
		if err != nil {
			return nil
		}
		rel, _ := filepath.Rel(root, p)
		e := treeEntry{Mode: info.Mode()}
		if info.Mode()&fs.ModeSymlink != 0 {
			e.Link, _ = os.Readlink(p)
		} else if info.Mode().IsRegular() {
			b, _ := os.ReadFile(p)
			h := sha256.Sum256(b)
			e.Sum = hex.EncodeToString(h[:8])
		}
		out[rel] = e
		return nil
	})
	return out
}

func diffTrees(a, b map[string]treeEntry) []string {
	var d []string
	for p, e := range a {
		if f, ok := b[p]; !ok {
			d = append(d, "deleted "+p)
		} else if e != f {
			d = append(d, "changed "+p)
		}
	}
	for p := range b {
		if _, ok := a[p]; !ok {
			d = append(d, "created "+p)
		}
	}
	sort.Strings(d)
	return d
}

type cliRun struct {
	Fifo   []byte // bytes read from the FIFO at -out (fifo mode)
	Args   []string
	Exit   int
	Stdout []byte
	Stderr []byte
	Killed bool
}

func (fx *Fixture) cli(dir string, stdoutFull bool, wrap []string, args ...string) cliRun {
	argv := append(append([]string{}, wrap...), moqBin())
	argv = append(argv, args...)
	cmd := exec.Command(argv[0], argv[1:]...)
	cmd.Dir = dir
	cmd.Env = fx.Env
	var ob, eb bytes.Buffer
	cmd.Stderr = &eb
	if stdoutFull {
		// standard output that cannot be written: a descriptor opened read-only (write fails
		// with EBADF); /dev/full does not exist in every sandbox
		f, err := os.Open(moqBin())
		must(err)
		defer f.Close()
		cmd.Stdout = f
	} else {
		cmd.Stdout = &ob
	}
	r := cliRun{Args: args}
	done := make(chan error, 1)
	must(cmd.Start())
	go func() { done <- cmd.Wait() }()
	select {
	case err := <-done:
		if err != nil {
			if ee, ok := err.(*exec.ExitError); ok {
				r.Exit = ee.ExitCode()
			} else {
				r.Exit = -1
			}
		}
	case <-time.After(120 * time.Second):
		cmd.Process.Kill()
		<-done
		r.Killed = true
		r.Exit = -2
	}
	r.Stdout, r.Stderr = ob.Bytes(), eb.Bytes()
	return r
}

// e5Sandbox is a private copy of the CLI fixture package tree for one run.
type e5Sandbox struct {
	fx   *Fixture
	root string // copy of the module root
	pkg  string // <root>/s/cli
}

var sandboxSeq int64
var sandboxMu sync.Mutex

func (fx *Fixture) newSandbox(work string, version int) *e5Sandbox {
	sandboxMu.Lock()
	sandboxSeq++
	n := sandboxSeq
	sandboxMu.Unlock()
	root := filepath.Join(work, "sb", fmt.Sprint(n))
	writeFile(filepath.Join(root, "go.mod"), "module "+modPath+"\n\ngo 1.24\n")
	for _, d := range []string{"~/a/foo", "~/b/foo", "~/d/bar", "~/v1/api", "~/v2/api", "~/q/one", "~/q/two"} {
		writeFile(filepath.Join(root, d[2:], "p.go"), depBody(depName(d)))
	}
	pkg := filepath.Join(root, "s", "cli")
	src := cliSrcV1
	if version == 2 {
		src = cliSrcV2
	}
	writeFile(filepath.Join(pkg, "a.go"), src)
	writeFile(filepath.Join(pkg, "b.go"), cliSrcB)
	writeFile(filepath.Join(pkg, "zz.go"), cliSrcZ)
	writeFile(filepath.Join(pkg, "zy.go"), cliSrcY)
	writeFile(filepath.Join(pkg, "m1.go"), cliSrcM1)
	writeFile(filepath.Join(pkg, "m2.go"), cliSrcM2)
	writeFile(filepath.Join(pkg, "c.go"), cliSrcC)
	// bystanders next to the usual -out names: a run must not touch them
	writeFile(filepath.Join(pkg, "out_moq_test.go.tmp"), "bystander\n")
	writeFile(filepath.Join(pkg, "x_moq.go.tmp"), "bystander\n")
	writeFile(filepath.Join(pkg, "outdir.tmp"), "bystander\n")
	writeFile(filepath.Join(pkg, "sub", "t.go"), cliSub)
	writeFile(filepath.Join(pkg, "notes.txt"), "not a go file\n")
	// a directory named like a -pkg value that `go list` cannot load (a nested module with an empty go.mod)
	writeFile(filepath.Join(pkg, "other", "go.mod"), "")
	writeFile(filepath.Join(pkg, "other", "keep.txt"), "keep\n")
	return &e5Sandbox{fx: fx, root: root, pkg: pkg}
}

func (sb *e5Sandbox) remove() { os.RemoveAll(sb.root) }

// ---- failure alphabet ----

type e5Case struct {
	Desc       string
	Version    int
	OutMode    string // "", new, existing, deep, parent-file, dir, dir-nonempty, devfull
	Rm         bool
	Flags      []string
	SrcDir     string // "." or a broken variant
	Ifaces     []string
	ExpectFail bool
	StdoutFull bool
	Why        string // why failure is expected
}

var badArgs = []struct{ arg, why string }{
	{"Nope", "unknown type name"}, {"S", "struct type"}, {"GS", "generic struct"}, {"F", "function"}, {"C", "constant"},
	{"V", "variable of interface type"}, {"NotI", "defined non-interface type"}, {"", "empty argument"}, {":X", "empty interface name"},
	{"A:", "empty mock name"}, {"A:1x", "mock name is not an identifier"}, {"Num", "constraint interface (type set)"}, {"Cmp", "constraint interface (comparable)"}, {"a", "unexported/unknown name"}, {"A B", "two names in one argument"},
}

func e5Cases(thorough bool) []e5Case {
	var out []e5Case
	flagSets := [][]string{{}, {"-stub", "-with-resets"}, {"-skip-ensure", "-fmt", "noop"}, {"-pkg", "cli_test", "-fmt", "goimports"}, {"-pkg", "other", "-stub"}}
	outModes := []string{"", "new", "existing", "deep", "parent-file", "dir", "dir-nonempty"}
	good := []string{"A", "B", "G", "E"}
	for _, om := range outModes {
		for _, rm := range []bool{false, true} {
			if om == "" && rm {
				continue
			}
			for fi, fl := range flagSets {
				if !thorough && fi >= 2 && (om == "dir" || om == "dir-nonempty" || om == "parent-file") {
					continue
				}
				unwritable := om == "parent-file" || om == "dir-nonempty" || om == "devfull" || (om == "dir" && !rm)
				// success cases
				for _, ifs := range [][]string{{"A"}, {"A", "B"}, {"G", "A:Custom", "E"}} {
					c := e5Case{Desc: "good args", Version: 1, OutMode: om, Rm: rm, Flags: fl, SrcDir: ".", Ifaces: ifs, ExpectFail: unwritable}
					if unwritable {
						c.Why = "destination not writable (" + om + ")"
					}
					out = append(out, c)
				}
				// k-th of n bad
				for n := 1; n <= 3; n++ {
					for k := 0; k < n; k++ {
						for bi, b := range badArgs {
							if !thorough && n == 3 && bi%3 != k {
								continue
							}
							noop := false
							for _, f := range fl {
								if f == "noop" {
									noop = true
								}
							}
							if noop && strings.HasPrefix(b.why, "mock name") || noop && b.why == "empty mock name" {
								continue // without a formatter nothing can reject a user-chosen mock name: outside the alphabet
							}
							ifs := append([]string{}, good[:n]...)
							ifs[k] = b.arg
							out = append(out, e5Case{Desc: fmt.Sprintf("argument %d of %d bad (%s)", k+1, n, b.why), Version: 1, OutMode: om, Rm: rm, Flags: fl, SrcDir: ".",
								Ifaces: ifs, ExpectFail: true, Why: b.why})
						}
					}
				}
				// unloadable packages, too few arguments
				for _, sd := range []string{"missing-dir", "nogo", "syntaxerr", "typeerr"} {
					out = append(out, e5Case{Desc: "unloadable package: " + sd, Version: 1, OutMode: om, Rm: rm, Flags: fl, SrcDir: sd, Ifaces: []string{"A"}, ExpectFail: true, Why: sd})
				}
				out = append(out, e5Case{Desc: "too few arguments", Version: 1, OutMode: om, Rm: rm, Flags: fl, SrcDir: ".", Ifaces: nil, ExpectFail: true, Why: "too few arguments"})
			}
		}
	}
	// invoked from the module root with a relative source directory and a relative -out
	for _, fl := range [][]string{flagSets[0], flagSets[1], {"-fmt", "goimports"}, {"-fmt", "noop", "-stub"}} {
		for _, rm := range []bool{false, true} {
			out = append(out, e5Case{Desc: "from module root", Version: 1, OutMode: "from-root", Rm: rm, Flags: append(append([]string{}, fl...), "-pkg", "gen"), SrcDir: "./s/cli", Ifaces: []string{"A", "B"}, ExpectFail: false})
			out = append(out, e5Case{Desc: "from module root, bad argument", Version: 1, OutMode: "from-root", Rm: rm, Flags: fl, SrcDir: "./s/cli", Ifaces: []string{"A", "Nope"}, ExpectFail: true, Why: "unknown type name"})
		}
	}
	// -out names a FIFO with a reader on the other end: moq must write the file and exit
	for _, fl := range flagSets[:2] {
		out = append(out, e5Case{Desc: "-out is a named pipe with a reader", Version: 1, OutMode: "fifo", Flags: fl, SrcDir: ".", Ifaces: []string{"A", "B"}, ExpectFail: false})
		out = append(out, e5Case{Desc: "-out is a named pipe, bad argument", Version: 1, OutMode: "fifo", Flags: fl, SrcDir: ".", Ifaces: []string{"A", "Nope"}, ExpectFail: true, Why: "unknown type name"})
	}
	// a bad argument whose mock name repeats the mock name of an earlier good argument
	for _, ifs := range [][]string{{"A", "Nope:AMock"}, {"A:Custom", "Nope:Custom"}, {"A", "B", "S:BMock"}, {"A:M1", "B:M2", "Nope:M1"}} {
		for _, om := range []string{"", "new", "existing"} {
			out = append(out, e5Case{Desc: "bad argument reusing an earlier mock name", Version: 1, OutMode: om, Flags: nil, SrcDir: ".", Ifaces: ifs, ExpectFail: true, Why: "unknown type name / struct type"})
		}
	}
	// an unknown -fmt value means gofmt: unformattable output must still be rejected
	for _, bad := range []string{"A:1x", "A:"} {
		for _, om := range []string{"", "new", "existing"} {
			out = append(out, e5Case{Desc: "unknown -fmt value with an unformattable mock name", Version: 1, OutMode: om, Flags: []string{"-fmt", "gofumpt"}, SrcDir: ".",
				Ifaces: []string{"B", bad}, ExpectFail: true, Why: "mock name is not an identifier"})
		}
	}
	// stdout is /dev/full
	for _, fl := range flagSets {
		out = append(out, e5Case{Desc: "standard output is not writable", Version: 1, OutMode: "", Flags: fl, SrcDir: ".", Ifaces: []string{"A"}, ExpectFail: true, StdoutFull: true, Why: "stdout not writable"})
	}
	return out
}

// previous content of the -out file: longer than any generated mock (a write that does not
// truncate would leave a stale tail)
var oldContent = "package cli\n\n// previous content of the output file\nvar keepMe = 1\n" + strings.Repeat("// old old old old old old old old old old old old old old old old\n", 400)

// prepare materialises the prior state of the -out path; returns the -out value ("" = stdout).
func (c *e5Case) prepare(sb *e5Sandbox) (outArg string, outAbs string) {
	switch c.SrcDir {
	case "nogo":
		must(os.MkdirAll(filepath.Join(sb.pkg, "nogo"), 0o755))
		writeFile(filepath.Join(sb.pkg, "nogo", "readme.txt"), "x")
	case "syntaxerr":
		writeFile(filepath.Join(sb.pkg, "syntaxerr", "x.go"), "package x\n\nfunc {\n")
	case "typeerr":
		writeFile(filepath.Join(sb.pkg, "typeerr", "x.go"), "package x\n\ntype A interface{ M(undefinedType) }\n")
	}
	switch c.OutMode {
	case "":
		return "", ""
	case "new":
		outArg = "out_moq_test.go"
	case "existing":
		outArg = "out_moq_test.go"
		writeFile(filepath.Join(sb.pkg, outArg), oldContent)
	case "deep":
		outArg = filepath.Join("gen", "deeper", "out_moq.go")
	case "parent-file":
		writeFile(filepath.Join(sb.pkg, "blocker"), "i am a file")
		outArg = filepath.Join("blocker", "out_moq.go")
	case "dir":
		outArg = "outdir"
		must(os.MkdirAll(filepath.Join(sb.pkg, outArg), 0o755))
	case "dir-nonempty":
		outArg = "outdir"
		writeFile(filepath.Join(sb.pkg, outArg, "keep.txt"), "keep")
	case "fifo":
		outArg = "out_fifo"
		must(syscall.Mkfifo(filepath.Join(sb.pkg, outArg), 0o600))
	case "from-root":
		outArg = filepath.Join("gen", "m_moq.go")
		return outArg, filepath.Join(sb.root, outArg)
	case "devfull":
		return "/dev/full", "/dev/full"
	}
	return outArg, filepath.Join(sb.pkg, outArg)
}

func (c *e5Case) argv(outArg string) []string {
	var a []string
	a = append(a, c.Flags...)
	if outArg != "" {
		a = append(a, "-out", outArg)
	}
	if c.Rm {
		a = append(a, "-rm")
	}
	a = append(a, c.SrcDir)
	a = append(a, c.Ifaces...)
	return a
}

func (c *e5Case) String() string {
	return fmt.Sprintf("%s; -out state %q rm=%v flags=%v: moq %s", c.Desc, c.OutMode, c.Rm, c.Flags, strings.Join(c.argv("<out>"), " "))
}

var crashRe = regexp.MustCompile(`(?m)^(panic: |fatal error: |goroutine \d+ \[)`)

type e5Verdict struct {
	Prop, Diag, Detail string
}

// judge applies the oracles of C17, C18 and C19 to one CLI run.
func (c *e5Case) judge(sb *e5Sandbox, before, after map[string]treeEntry, r cliRun, outArg, outAbs string, reference []byte) []e5Verdict {
	var v []e5Verdict
	add := func(prop, diag, detail string) { v = append(v, e5Verdict{prop, diag, detail}) }
	failed := r.Exit != 0
	if r.Killed {
		add("C19", "cli: no exit within 120 s", "")
		return v
	}
	if crashRe.Match(r.Stderr) || crashRe.Match(r.Stdout) {
		add("C19", "cli: Go runtime panic / fatal error on the console", firstLines(string(r.Stderr), 6))
	}
	if c.ExpectFail && !failed {
		add("C17", "cli: exit status 0 although the invocation must fail ("+c.Why+")", firstLines(string(r.Stderr), 3))
		add("C19", "cli: no diagnostic for an invalid invocation ("+c.Why+")", "")
	}
	if !c.ExpectFail && failed {
		add("C17", "cli: a valid invocation failed", firstLines(string(r.Stderr), 4))
	}
	rel := func(p string) string { x, _ := filepath.Rel(sb.root, p); return x }
	outRel := ""
	if outAbs != "" && outAbs != "/dev/full" {
		outRel = rel(outAbs)
	}
	if failed {
		if len(bytes.TrimSpace(r.Stderr)) == 0 {
			add("C17", "cli: failure without a diagnostic on standard error", "")
			add("C19", "cli: failure without a diagnostic on standard error", "")
		}
		if bytes.Contains(r.Stdout, []byte("Code generated by moq")) || bytes.Contains(r.Stdout, []byte("package cli")) {
			add("C17", "cli: Go source on standard output although the run failed", firstLines(string(r.Stdout), 3))
		}
		// diagnostics name the offending type or the stage
		if c.ExpectFail && strings.HasPrefix(c.Desc, "argument ") {
			bad := ""
			for _, a := range c.Ifaces {
				for _, b := range badArgs {
					if a == b.arg {
						bad = strings.SplitN(a, ":", 2)[0]
					}
				}
			}
			msg := string(r.Stderr)
			if !strings.Contains(msg, "interface not found") && !strings.Contains(msg, "is not an interface") && !strings.Contains(msg, "go/format") &&
				!strings.Contains(msg, "goimports") && !strings.Contains(msg, "couldn't load") && !strings.Contains(msg, "not enough arguments") {
				add("C19", "cli: diagnostic names neither the offending type nor the stage", firstLines(msg, 3))
			} else if bad != "" && (strings.Contains(msg, "interface not found") || strings.Contains(msg, "is not an interface")) && !strings.Contains(msg, bad) {
				add("C19", "cli: diagnostic does not name the offending argument", firstLines(msg, 3))
			}
		}
		// existing -out untouched (or gone with -rm), nothing new where nothing was
		if outRel != "" {
			be, had := before[outRel]
			ae, has := after[outRel]
			switch {
			case had && has && be != ae:
				add("C17", "cli: failed run changed the existing -out path", outRel)
			case had && !has && !c.Rm:
				add("C17", "cli: failed run removed the -out path without -rm", outRel)
			case !had && has:
				add("C17", "cli: failed run left something at the -out path", outRel)
			}
		}
	} else {
		if outAbs == "" {
			if !bytes.Equal(r.Stdout, reference) {
				add("C17", "cli: stdout of a successful run is not exactly the generated file", "")
			}
		} else if c.OutMode == "fifo" {
			if reference != nil && !bytes.Equal(r.Fifo, reference) {
				add("C17", "cli: bytes written to the -out FIFO differ from the generation written to standard output", fmt.Sprintf("%d vs %d bytes", len(r.Fifo), len(reference)))
			}
		} else if outAbs != "/dev/full" {
			got, err := os.ReadFile(outAbs)
			if err != nil {
				add("C17", "cli: successful run but the -out file cannot be read", err.Error())
			} else if reference != nil && !bytes.Equal(got, reference) {
				add("C17", "cli: -out file differs from the generation written to standard output", "")
			}
			if len(r.Stdout) != 0 {
				add("C17", "cli: successful -out run wrote to standard output", firstLines(string(r.Stdout), 2))
			}
		}
	}
	// C18: nothing but the -out path and newly created ancestor directories may differ
	for _, d := range diffTrees(before, after) {
		p := d[strings.Index(d, " ")+1:]
		if outRel != "" && (p == outRel || strings.HasPrefix(outRel, p+string(filepath.Separator))) {
			if strings.HasPrefix(d, "created ") || p == outRel {
				continue
			}
		}
		if outRel != "" && strings.HasPrefix(p, outRel+string(filepath.Separator)) && c.OutMode == "dir" {
			continue
		}
		add("C18", "cli: run modified the tree outside the -out path", d)
	}
	return v
}

// ---- strace fault injection ----

var straceLineRe = regexp.MustCompile(`^(?:\[pid\s+\d+\]\s+|\d+\s+)?(\w+)\((.*)$`)

type faultPoint struct {
	Syscall string
	Path    string
}

// recordHistory runs the command under strace and returns the (syscall, path) pairs that
// touched one of the watched paths.
func (fx *Fixture) recordHistory(sb *e5Sandbox, watch []string, args []string) ([]faultPoint, cliRun, string) {
	tr := filepath.Join(sb.root, "..", fmt.Sprintf("trace-%d.txt", time.Now().UnixNano()))
	wrap := []string{"strace", "-f", "-qq", "-o", tr, "-e", "trace=unlink,unlinkat,mkdir,mkdirat,open,openat,creat,write,pwrite64,rename,renameat,renameat2,ftruncate,truncate,fsync,close"}
	for _, w := range watch {
		wrap = append(wrap, "-P", w)
	}
	r := fx.cli(sb.pkg, false, wrap, args...)
	b, _ := os.ReadFile(tr)
	os.Remove(tr)
	var pts []faultPoint
	seen := map[faultPoint]int{}
	for _, line := range strings.Split(string(b), "\n") {
		m := straceLineRe.FindStringSubmatch(line)
		if m == nil || m[1] == "close" {
			continue
		}
		path := ""
		for _, w := range watch {
			if strings.Contains(m[2], `"`+w+`"`) {
				path = w
			}
		}
		if path == "" {
			// fd-based call on a watched path: strace -P already filtered it; attribute to the deepest watch (the file)
			path = watch[0]
		}
		fp := faultPoint{m[1], path}
		seen[fp]++
		if seen[fp] == 1 {
			pts = append(pts, fp)
		}
	}
	dups := ""
	for fp, n := range seen {
		if n > 1 {
			dups += fmt.Sprintf("%s(%s)x%d ", fp.Syscall, filepath.Base(fp.Path), n)
		}
	}
	return pts, r, dups
}

var errnos = []string{"ENOSPC", "EACCES", "EIO", "EROFS"}
