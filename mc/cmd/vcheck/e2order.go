package main

import (
	"encoding/json"
	"fmt"
	"path/filepath"
	"sort"
	"strings"
	"sync"
)

// e2Order: the schedule dimension of C14 is Go's map iteration order. Every range over a
// map in internal/registry is turned into a choice point and all permutations are explored
// with a deviation bound; differences are confirmed on the uninstrumented binary before
// they are reported.
func e2Order(fx *Fixture, work string, rep *Report, depth, dev int) {
	overlay, sites, err := instrumentMapRanges(work)
	if err != nil {
		fatalf("order mode: %v", err)
	}
	overlay[repoRoot+"/internal/registry/zz_verif_regbfs_test.go"] = e2TestFile
	rep.Set("map_range_sites_instrumented", sites)
	var findings []e2OrderFinding
	siteHits := map[string]int{}
	shards := nproc()
	var mu sync.Mutex
	parallelDo(shards, shards, func(k int) {
		env := []string{"E2_MODE=order", fmt.Sprintf("E2_DEPTH=%d", depth), fmt.Sprintf("E2_DEV=%d", dev), fmt.Sprintf("E2_SHARD=%d", k), fmt.Sprintf("E2_OF=%d", shards)}
		raw, inflight, crash := e2Run(work, "TestVerifOrder", overlay, env)
		if raw == nil {
			fatalf("order mode: test process crashed at %v: %s", inflight, crash)
		}
		var o e2OrderOut
		if err := json.Unmarshal(raw, &o); err != nil {
			fatalf("order mode output: %v", err)
		}
		mu.Lock()
		defer mu.Unlock()
		rep.Add("states", o.States)
		rep.Add("transitions", o.Transitions)
		rep.Add("evaluations", o.Runs)
		rep.Add("order_sequences", o.Sequences)
		for s, n := range o.Sites {
			siteHits[s] += n
		}
		findings = append(findings, o.Findings...)
		for _, s := range o.Samples {
			rep.Sample(map[string]any{"leg": "order", "sequence_and_result": s})
		}
	})
	rep.Set("map_range_sites_hit", siteHits)
	rep.Set("order_dependent_sequences_on_instrumented_code", len(findings))
	sort.Slice(findings, func(i, j int) bool {
		return len(findings[i].Seq) < len(findings[j].Seq) || (len(findings[i].Seq) == len(findings[j].Seq) && fmt.Sprint(findings[i].SeqText) < fmt.Sprint(findings[j].SeqText))
	})
	const maxConfirm = 40
	latent := 0
	var latentList []string
	for fi, f := range findings {
		if fi >= maxConfirm {
			rep.Cap(fmt.Sprintf("%d order-dependent sequences found on instrumented code, only the %d shortest were confirmed on the real binary", len(findings), maxConfirm))
			break
		}
		// realise the sequence as one method on disk
		var params []string
		named := false
		for _, o := range f.Seq {
			if o.Name != "" {
				named = true
			}
		}
		var feats []string
		for _, o := range f.Seq {
			ty := o.Type
			for i := len(e2PkgKeys) - 1; i >= 0; i-- {
				ty = strings.ReplaceAll(ty, fmt.Sprintf("P%d", i), "@{"+e2PkgKeys[i]+"}.T")
			}
			params = append(params, paramDecl(o.Name, ty, named))
			feats = append(feats, "e2var:"+o.Name, "e2type:"+o.Type)
			if o.Name == "" && o.Type == "string" {
				feats = append(feats, "e2auto:s")
			}
		}
		decl := "type I interface{ M(" + strings.Join(params, ", ") + ") }"
		srcAl := map[string]string{}
		for path, a := range f.Aliases {
			k := path
			if strings.HasPrefix(path, modPath+"/") {
				k = "~/" + strings.TrimPrefix(path, modPath+"/")
			}
			srcAl[k] = a
		}
		if len(srcAl) > 0 {
			decl += fmt.Sprintf("  // source aliases %v", f.Aliases)
		}
		sp := &SrcPkg{Dir: fmt.Sprintf("s/order_%d", fi), Name: "src", Files: []SrcFile{{Name: "i.go", Aliases: srcAl, Decls: decl + "\n"}}, Ifaces: []IfaceCase{{Name: "I", Src: decl}}}
		fx.writePkg(sp)
		const N = 256
		outs := make([]string, N)
		parallelDo(N, nproc(), func(i int) {
			r := fx.cli(filepath.Join(fx.Root, sp.Dir), false, nil, ".", "I")
			outs[i] = fmt.Sprintf("%d|%s", r.Exit, hashBytes(append(r.Stdout, r.Stderr...)))
		})
		distinct := map[string]int{}
		for _, o := range outs {
			distinct[o]++
		}
		rep.Add("order_confirmation_runs", N)
		if len(distinct) > 1 {
			rep.Violate(&Violation{Diag: "determinism: output depends on map iteration order", Case: "E2 order: " + decl,
				Detail:   fmt.Sprintf("instrumented exploration: %d different results under permuted map iteration (%v); confirmed on the uninstrumented binary: %d distinct outputs in %d fresh processes %v", len(f.Outcomes), f.Outcomes, len(distinct), N, distinct),
				Features: append(feats, "e2:order"), Replay: map[string]any{"engine": "E2", "mode": "order", "seq": f.Seq, "decl": decl}})
		} else {
			latent++
			if len(latentList) < 10 {
				latentList = append(latentList, decl)
			}
		}
	}
	rep.Set("latent_order_dependence_not_realisable_on_this_runtime", latent)
	rep.Set("latent_examples", latentList)
}
