package main

// Worker subprocess: runs the real generator (moq.New + Mocker.Mock from /repo) for one
// request at a time. Isolation matters because moq can exhaust the stack on realistic
// inputs (fatal, unrecoverable); the parent attributes a worker death to the request in
// flight and starts a new worker.

import (
	"bufio"
	"bytes"
	"encoding/json"
	"errors"
	"fmt"
	"io"
	"os"
	"os/exec"
	"runtime/debug"
	"sync"
	"time"

	"github.com/matryer/moq/pkg/moq"
)

// GenReq is one generation request.
type GenReq struct {
	Dir        string   `json:"dir"`  // source package directory (absolute)
	Cwd        string   `json:"cwd"`  // working directory for the generation ("" = leave)
	PkgName    string   `json:"pkg"`  // -pkg
	Formatter  string   `json:"fmt"`  // -fmt
	Stub       bool     `json:"stub"` // -stub
	SkipEnsure bool     `json:"skip"` // -skip-ensure
	WithResets bool     `json:"rst"`  // -with-resets
	Args       []string `json:"args"` // interface arguments
	// FailAfter >= 0: the writer accepts that many bytes and then fails (C17 library leg).
	FailAfter int `json:"fail_after"`
	Repeat    int `json:"repeat"` // generate this many extra times with fresh Mockers; outputs must be reported
}

// GenResp is the outcome of one request.
type GenResp struct {
	Out       []byte   `json:"out,omitempty"`
	Err       string   `json:"err,omitempty"`   // error returned by New/Mock
	Stage     string   `json:"stage,omitempty"` // "new" or "mock" when Err != ""
	Panic     string   `json:"panic,omitempty"` // recovered panic value + stack
	Died      string   `json:"died,omitempty"`  // set by the parent: worker died / watchdog
	Writes    int      `json:"writes"`          // number of Write calls on the writer
	Written   int      `json:"written"`         // bytes accepted by the writer
	Repeats   [][]byte `json:"repeats,omitempty"`
	ElapsedMs int64    `json:"ms"`
}

type countingWriter struct {
	buf       bytes.Buffer
	writes    int
	failAfter int
}

func (w *countingWriter) Write(p []byte) (int, error) {
	w.writes++
	if w.failAfter >= 0 {
		room := w.failAfter - w.buf.Len()
		if room < len(p) {
			if room > 0 {
				w.buf.Write(p[:room])
			} else {
				room = 0
			}
			return room, errors.New("verif: injected write failure")
		}
	}
	return w.buf.Write(p)
}

func genOnce(req GenReq, failAfter int) (out []byte, writes int, stage string, err error) {
	m, err := moq.New(moq.Config{
		SrcDir:     req.Dir,
		PkgName:    req.PkgName,
		Formatter:  req.Formatter,
		StubImpl:   req.Stub,
		SkipEnsure: req.SkipEnsure,
		WithResets: req.WithResets,
	})
	if err != nil {
		return nil, 0, "new", err
	}
	w := &countingWriter{failAfter: failAfter}
	err = m.Mock(w, req.Args...)
	return w.buf.Bytes(), w.writes, "mock", err
}

func handle(req GenReq) (resp GenResp) {
	start := time.Now()
	defer func() {
		if r := recover(); r != nil {
			resp.Panic = fmt.Sprintf("%v\n%s", r, debug.Stack())
		}
		resp.ElapsedMs = time.Since(start).Milliseconds()
	}()
	if req.Cwd != "" {
		if err := os.Chdir(req.Cwd); err != nil {
			resp.Err, resp.Stage = err.Error(), "chdir"
			return
		}
	}
	out, writes, stage, err := genOnce(req, req.FailAfter)
	resp.Out, resp.Writes, resp.Written = out, writes, len(out)
	if err != nil {
		resp.Err, resp.Stage = err.Error(), stage
		if resp.Err == "" {
			resp.Err = "(empty error text)"
		}
	}
	for i := 0; i < req.Repeat; i++ {
		o, _, _, e := genOnce(req, -1)
		if e != nil {
			o = []byte("ERR:" + e.Error())
		}
		resp.Repeats = append(resp.Repeats, o)
	}
	return
}

func workerMain() {
	debug.SetMaxStack(64 << 20)
	in := bufio.NewReaderSize(os.Stdin, 1<<20)
	out := bufio.NewWriter(os.Stdout)
	dec := json.NewDecoder(in)
	enc := json.NewEncoder(out)
	for {
		var req GenReq
		if err := dec.Decode(&req); err != nil {
			return
		}
		resp := handle(req)
		if err := enc.Encode(&resp); err != nil {
			return
		}
		out.Flush()
	}
}

// ---- parent side ----

type workerProc struct {
	cmd    *exec.Cmd
	in     io.WriteCloser
	dec    *json.Decoder
	stderr *bytes.Buffer
}

func startWorker(env []string) (*workerProc, error) {
	self, err := os.Executable()
	if err != nil {
		return nil, err
	}
	cmd := exec.Command(self, "worker")
	cmd.Env = env
	inp, _ := cmd.StdinPipe()
	outp, _ := cmd.StdoutPipe()
	eb := &bytes.Buffer{}
	cmd.Stderr = &capWriter{buf: eb, max: 8 << 10}
	if err := cmd.Start(); err != nil {
		return nil, err
	}
	return &workerProc{cmd: cmd, in: inp, dec: json.NewDecoder(bufio.NewReaderSize(outp, 1<<20)), stderr: eb}, nil
}

type capWriter struct {
	mu  sync.Mutex
	buf *bytes.Buffer
	max int
}

func (c *capWriter) Write(p []byte) (int, error) {
	c.mu.Lock()
	defer c.mu.Unlock()
	if room := c.max - c.buf.Len(); room > 0 {
		if room > len(p) {
			room = len(p)
		}
		c.buf.Write(p[:room])
	}
	return len(p), nil
}

func (w *workerProc) kill() {
	if w == nil {
		return
	}
	w.in.Close()
	w.cmd.Process.Kill()
	w.cmd.Wait()
}

// Pool runs generation requests on a set of worker subprocesses.
type Pool struct {
	env      []string
	n        int
	watchdog time.Duration
	Deaths   int64
	mu       sync.Mutex
}

func NewPool(n int, env []string) *Pool {
	return &Pool{env: env, n: n, watchdog: 60 * time.Second}
}

// one executes a single request on w (starting it if nil); returns the possibly replaced worker.
func (p *Pool) one(w *workerProc, req GenReq) (*workerProc, GenResp) {
	var err error
	if w == nil {
		if w, err = startWorker(p.env); err != nil {
			return nil, GenResp{Died: "cannot start worker: " + err.Error()}
		}
	}
	b, _ := json.Marshal(&req)
	b = append(b, '\n')
	type res struct {
		resp GenResp
		err  error
	}
	ch := make(chan res, 1)
	go func() {
		if _, err := w.in.Write(b); err != nil {
			ch <- res{err: err}
			return
		}
		var r GenResp
		err := w.dec.Decode(&r)
		ch <- res{resp: r, err: err}
	}()
	select {
	case r := <-ch:
		if r.err != nil {
			w.cmd.Process.Kill()
			w.cmd.Wait()
			msg := w.stderr.String()
			if len(msg) > 600 {
				msg = msg[:600]
			}
			p.mu.Lock()
			p.Deaths++
			p.mu.Unlock()
			return nil, GenResp{Died: "worker died: " + firstLines(msg, 6)}
		}
		return w, r.resp
	case <-time.After(p.watchdog):
		w.kill()
		p.mu.Lock()
		p.Deaths++
		p.mu.Unlock()
		return nil, GenResp{Died: fmt.Sprintf("watchdog: no answer within %s", p.watchdog)}
	}
}

// Run executes all requests; handle is called (concurrently) with index and response.
func (p *Pool) Run(reqs []GenReq, handle func(i int, resp GenResp)) {
	var wg sync.WaitGroup
	idx := make(chan int, 256)
	for k := 0; k < p.n; k++ {
		wg.Add(1)
		go func() {
			defer wg.Done()
			var w *workerProc
			defer func() { w.kill() }()
			for i := range idx {
				var resp GenResp
				w, resp = p.one(w, reqs[i])
				handle(i, resp)
			}
		}()
	}
	for i := range reqs {
		idx <- i
	}
	close(idx)
	wg.Wait()
}

// Fresh runs one request in a brand-new worker process (used to confirm violations).
func (p *Pool) Fresh(req GenReq) GenResp {
	w, resp := p.one(nil, req)
	w.kill()
	return resp
}

func firstLines(s string, n int) string {
	out := ""
	for i := 0; i < n; i++ {
		j := bytes.IndexByte([]byte(s), '\n')
		if j < 0 {
			return out + s
		}
		out += s[:j+1]
		s = s[j+1:]
	}
	return out
}
