package main

// Static oracles (DESIGN §2.4). All of them read the emitted file through go/parser and
// go/types only; none asserts a textual pattern of what the template "should" emit.

import (
	"bytes"
	"fmt"
	"go/ast"
	"go/format"
	"go/printer"
	"go/token"
	"go/types"
	"regexp"
	"sort"
	"strconv"
	"strings"
	"unicode"
	"unicode/utf8"
)

func (r *Result) features() []string {
	var out []string
	sp := r.Fx.byDir[r.Case.Dir]
	for _, n := range r.Case.ifaceNames() {
		for _, ic := range sp.Ifaces {
			if ic.Name == n {
				out = append(out, ic.Tags...)
			}
		}
	}
	for _, n := range r.Case.ifaceNames() {
		out = append(out, "iface:"+n)
	}
	out = append(out, r.Case.Cfg.tags()...)
	out = append(out, "scope:"+r.Case.Scope)
	return out
}

func (r *Result) ifaceSrc() string {
	sp := r.Fx.byDir[r.Case.Dir]
	var out []string
	for _, n := range r.Case.ifaceNames() {
		for _, ic := range sp.Ifaces {
			if ic.Name == n {
				out = append(out, ic.Src)
			}
		}
	}
	return strings.Join(out, " ;; ")
}

func (r *Result) viol(diag, detail string) *Violation {
	return &Violation{Diag: normDiag(diag), Features: r.features(), Case: r.Case.String() + " :: " + r.ifaceSrc(), Detail: detail,
		Replay: r.replayPayload()}
}

// E1Replay is the replay payload of a generator-space case: the complete source package
// and the invocation.
type E1Replay struct {
	Engine string            `json:"engine"`
	Files  map[string]string `json:"files"`
	PkgDir string            `json:"pkg_dir"`
	Req    GenReq            `json:"request"`
	Cfg    Cfg               `json:"cfg"`
	Ifaces []string          `json:"ifaces"`
}

func (r *Result) replayPayload() any {
	sp := r.Fx.byDir[r.Case.Dir]
	files := map[string]string{"prelude.go": "package " + sp.Name + "\n" + prelude}
	for _, f := range sp.Files {
		files[f.Name] = f.render(sp.Name)
	}
	req := r.Case.req(r.Fx)
	req.Dir, req.Cwd = r.Case.Dir, r.Case.Dir
	return E1Replay{Engine: "E1", Files: files, PkgDir: r.Case.Dir, Req: req, Cfg: r.Case.Cfg, Ifaces: r.Case.Ifaces}
}

// typeErrors reports every parse / type error of the output as a violation.
func typeErrors(r *Result) []*Violation {
	if !r.ok() {
		return nil
	}
	tc := r.Typecheck()
	if tc.ParseErr != nil {
		return []*Violation{r.viol("output does not parse: "+firstLines(tc.ParseErr.Error(), 1), string(r.Resp.Out))}
	}
	var out []*Violation
	seen := map[string]bool{}
	for _, e := range tc.Errs {
		d := diagClass(e)
		if strings.HasPrefix(strings.TrimSpace(d), "other declaration of") {
			continue // continuation line of a "redeclared" error
		}
		if seen[d] {
			continue
		}
		seen[d] = true
		pos := r.Fx.fset.Position(e.Pos)
		out = append(out, r.viol("typecheck: "+d, fmt.Sprintf("%s:%d: %s\n%s", pos.Filename, pos.Line, e.Msg, lineOf(r.Resp.Out, pos))))
	}
	return out
}

func lineOf(src []byte, pos token.Position) string {
	if !strings.HasSuffix(pos.Filename, "moq_out.go") {
		return ""
	}
	lines := bytes.Split(src, []byte("\n"))
	if pos.Line >= 1 && pos.Line <= len(lines) {
		return strings.TrimSpace(string(lines[pos.Line-1]))
	}
	return ""
}

// ---- lookup helpers ----

func (tc *TC) mockNamed(name string) *types.Named {
	if tc.Pkg == nil {
		return nil
	}
	obj := tc.Pkg.Scope().Lookup(name)
	if obj == nil {
		return nil
	}
	tn, ok := obj.(*types.TypeName)
	if !ok {
		return nil
	}
	n, _ := tn.Type().(*types.Named)
	return n
}

// ifaceType returns the declared type of interface name in the package the output was
// checked against, its underlying interface and its type parameters (nil if not generic).
func (tc *TC) ifaceType(name string) (types.Type, *types.Interface, *types.TypeParamList) {
	if tc.SrcPkg == nil {
		return nil, nil, nil
	}
	obj := tc.SrcPkg.Scope().Lookup(name)
	if obj == nil {
		return nil, nil, nil
	}
	t := obj.Type()
	it, _ := t.Underlying().(*types.Interface)
	var tps *types.TypeParamList
	if n, ok := types.Unalias(t).(*types.Named); ok && (n.TypeArgs() == nil || n.TypeArgs().Len() == 0) {
		tps = n.TypeParams() // an instantiated type reports its origin's parameters: not generic
	}
	if a, ok := t.(*types.Alias); ok && a.TypeParams().Len() > 0 {
		tps = a.TypeParams()
	}
	return t, it, tps
}

// candidate type arguments for generic instantiation (C09 / C02 on generic interfaces).
func candidateArgs(src *types.Package) []types.Type {
	out := []types.Type{types.Typ[types.Int], types.Typ[types.String]}
	look := func(n string) types.Type {
		if o := src.Scope().Lookup(n); o != nil {
			return o.Type()
		}
		return nil
	}
	if t := look("Loc"); t != nil {
		out = append(out, t, types.NewPointer(t))
	}
	out = append(out, types.NewSlice(types.Typ[types.Byte]))
	if t := look("KeyImpl"); t != nil {
		out = append(out, t)
	}
	out = append(out, types.Typ[types.Float64], types.Universe.Lookup("any").Type())
	if t := look("Int"); t != nil {
		out = append(out, t)
	}
	return out
}

func argLists(cands []types.Type, k int) [][]types.Type {
	if k == 0 {
		return [][]types.Type{nil}
	}
	var out [][]types.Type
	for _, rest := range argLists(cands, k-1) {
		for _, c := range cands {
			out = append(out, append(append([]types.Type{}, rest...), c))
		}
	}
	return out
}

// conformance checks one (mock, interface) pair, both already instantiated or non-generic.
func conformance(mock types.Type, iface types.Type, where string) []string {
	var out []string
	it, ok := iface.Underlying().(*types.Interface)
	if !ok {
		return []string{where + "interface type is not an interface"}
	}
	ptr := types.NewPointer(mock)
	if !types.AssignableTo(ptr, iface) {
		out = append(out, where+"pointer to mock is not assignable to the interface")
	}
	ms := types.NewMethodSet(ptr)
	st, _ := mock.Underlying().(*types.Struct)
	for i := 0; i < it.NumMethods(); i++ {
		m := it.Method(i)
		sel := ms.Lookup(m.Pkg(), m.Name())
		if sel == nil {
			out = append(out, fmt.Sprintf("%smethod %s missing from *mock", where, m.Name()))
			continue
		}
		if !types.Identical(sel.Type(), m.Type()) {
			out = append(out, fmt.Sprintf("%smethod %s has a different signature", where, m.Name()))
		}
		// exactly one companion field <M>Func of identical function type
		n := 0
		if st != nil {
			for j := 0; j < st.NumFields(); j++ {
				f := st.Field(j)
				if f.Name() == m.Name()+"Func" {
					n++
					if !types.Identical(f.Type(), m.Type()) {
						out = append(out, fmt.Sprintf("%sfield %sFunc has a type different from the method's signature", where, m.Name()))
					}
				}
			}
		}
		if n != 1 {
			out = append(out, fmt.Sprintf("%s%d fields named %sFunc", where, n, m.Name()))
		}
	}
	return out
}

// oracleC02: ifaceconf.
func oracleC02(r *Result) []*Violation {
	if !r.ok() {
		return nil
	}
	tc := r.Typecheck()
	if tc.ParseErr != nil || tc.Pkg == nil {
		return nil // C01's
	}
	var out []*Violation
	mocks := r.Case.mockNames()
	pfx := "ifaceconf: "
	if len(tc.Errs) > 0 {
		pfx = "ifaceconf (output has type errors): "
	}
	for i, in := range r.Case.ifaceNames() {
		mock := tc.mockNamed(mocks[i])
		it, _, tps := tc.ifaceType(in)
		if mock == nil || it == nil {
			out = append(out, r.viol(pfx+"mock type or interface not found in checked output", mocks[i]))
			continue
		}
		if tps == nil || tps.Len() == 0 {
			if mock.TypeParams().Len() != 0 {
				out = append(out, r.viol(pfx+"mock of a non-generic interface is generic", ""))
				continue
			}
			for _, d := range conformance(mock, it, "") {
				out = append(out, r.viol(pfx+d, ""))
			}
			continue
		}
		for _, d := range genericConformance(tc, mock, it, tps, false) {
			out = append(out, r.viol(pfx+d, ""))
		}
	}
	return dedupViol(out)
}

func dedupViol(in []*Violation) []*Violation {
	seen := map[string]bool{}
	var out []*Violation
	for _, v := range in {
		if !seen[v.Diag] {
			seen[v.Diag] = true
			out = append(out, v)
		}
	}
	return out
}

// genericConformance enumerates candidate type-argument lists; for each list the
// interface accepts, the mock must accept it and implement the instance. With
// constraints=true also the converse acceptance and the constraint shapes are compared.
func genericConformance(tc *TC, mock *types.Named, iface types.Type, tps *types.TypeParamList, constraints bool) []string {
	var out []string
	add := func(s string) {
		for _, o := range out {
			if o == s {
				return
			}
		}
		out = append(out, s)
	}
	k := tps.Len()
	if mock.TypeParams().Len() != k {
		return []string{fmt.Sprintf("mock has %d type parameters, interface has %d", mock.TypeParams().Len(), k)}
	}
	if constraints {
		for i := 0; i < k; i++ {
			a := canonType(tps.At(i).Constraint(), tps)
			b := canonType(mock.TypeParams().At(i).Constraint(), mock.TypeParams())
			if a != b {
				add(fmt.Sprintf("type parameter %d: constraint differs (interface %s, mock %s)", i, a, b))
			}
		}
	}
	cands := candidateArgs(tc.SrcPkg)
	if k > 2 {
		cands = cands[:3]
	}
	ctx := types.NewContext()
	accepted := 0
	for _, args := range argLists(cands, k) {
		ii, errI := types.Instantiate(ctx, iface, args, true)
		mi, errM := types.Instantiate(ctx, mock, args, true)
		if errI != nil {
			if constraints && errM == nil {
				add("mock accepts type arguments the interface rejects: " + typeList(args))
			}
			continue
		}
		accepted++
		if errM != nil {
			add("mock rejects type arguments the interface accepts: " + typeList(args))
			continue
		}
		for _, d := range conformance(mi, ii, "") {
			add("instance " + d)
		}
	}
	if accepted == 0 {
		// none of the candidates satisfies the constraint: fall back to an unvalidated
		// instantiation with the first candidate so that signatures are still compared.
		args := argLists(cands[:1], k)[0]
		ii, e1 := types.Instantiate(ctx, iface, args, false)
		mi, e2 := types.Instantiate(ctx, mock, args, false)
		if e1 == nil && e2 == nil {
			for _, d := range conformance(mi, ii, "") {
				if !strings.Contains(d, "assignable") {
					add("instance(unvalidated) " + d)
				}
			}
		}
	}
	return out
}

func typeList(ts []types.Type) string {
	var s []string
	for _, t := range ts {
		s = append(s, types.TypeString(t, func(p *types.Package) string { return p.Name() }))
	}
	return "[" + strings.Join(s, ", ") + "]"
}

// canonType prints a type with full package paths, without parameter names, and with
// type parameters of tps printed by index.
func canonType(t types.Type, tps *types.TypeParamList) string {
	var b strings.Builder
	canonWrite(&b, t, tps, 0)
	return strings.NewReplacer("\x01", "", "\x02", "").Replace(b.String())
}

var fieldNameRe = regexp.MustCompile("\x01[^\x02]*\x02 ")

// canonNoNames is canonType without struct field names (the call-record field names may
// legitimately differ between a joint and a solo generation).
func canonNoNames(t types.Type, tps *types.TypeParamList) string {
	var b strings.Builder
	canonWrite(&b, t, tps, 0)
	return fieldNameRe.ReplaceAllString(b.String(), "")
}

func canonWrite(b *strings.Builder, t types.Type, tps *types.TypeParamList, depth int) {
	if depth > 12 {
		b.WriteString("…")
		return
	}
	switch t := t.(type) {
	case *types.TypeParam:
		if tps != nil {
			for i := 0; i < tps.Len(); i++ {
				if tps.At(i) == t {
					fmt.Fprintf(b, "$%d", i)
					return
				}
			}
		}
		fmt.Fprintf(b, "$%d", t.Index())
	case *types.Alias:
		canonWrite(b, types.Unalias(t), tps, depth)
	case *types.Named:
		if p := t.Obj().Pkg(); p != nil {
			b.WriteString(p.Path() + ".")
		}
		b.WriteString(t.Obj().Name())
		if ta := t.TypeArgs(); ta != nil && ta.Len() > 0 {
			b.WriteString("[")
			for i := 0; i < ta.Len(); i++ {
				if i > 0 {
					b.WriteString(",")
				}
				canonWrite(b, ta.At(i), tps, depth+1)
			}
			b.WriteString("]")
		}
	case *types.Basic:
		b.WriteString(t.Name())
	case *types.Pointer:
		b.WriteString("*")
		canonWrite(b, t.Elem(), tps, depth+1)
	case *types.Slice:
		b.WriteString("[]")
		canonWrite(b, t.Elem(), tps, depth+1)
	case *types.Array:
		fmt.Fprintf(b, "[%d]", t.Len())
		canonWrite(b, t.Elem(), tps, depth+1)
	case *types.Map:
		b.WriteString("map[")
		canonWrite(b, t.Key(), tps, depth+1)
		b.WriteString("]")
		canonWrite(b, t.Elem(), tps, depth+1)
	case *types.Chan:
		switch t.Dir() {
		case types.SendOnly:
			b.WriteString("chan<- ")
		case types.RecvOnly:
			b.WriteString("<-chan ")
		default:
			b.WriteString("chan ")
		}
		b.WriteString("(")
		canonWrite(b, t.Elem(), tps, depth+1)
		b.WriteString(")")
	case *types.Signature:
		b.WriteString("func(")
		for i := 0; i < t.Params().Len(); i++ {
			if i > 0 {
				b.WriteString(",")
			}
			if t.Variadic() && i == t.Params().Len()-1 {
				b.WriteString("...")
				canonWrite(b, t.Params().At(i).Type().(*types.Slice).Elem(), tps, depth+1)
			} else {
				canonWrite(b, t.Params().At(i).Type(), tps, depth+1)
			}
		}
		b.WriteString(")(")
		for i := 0; i < t.Results().Len(); i++ {
			if i > 0 {
				b.WriteString(",")
			}
			canonWrite(b, t.Results().At(i).Type(), tps, depth+1)
		}
		b.WriteString(")")
	case *types.Struct:
		b.WriteString("struct{")
		for i := 0; i < t.NumFields(); i++ {
			f := t.Field(i)
			if f.Embedded() {
				b.WriteString("embedded ")
			}
			b.WriteString("\x01" + f.Name() + "\x02 ")
			canonWrite(b, f.Type(), tps, depth+1)
			if tag := t.Tag(i); tag != "" {
				b.WriteString(" " + strconv.Quote(tag))
			}
			b.WriteString(";")
		}
		b.WriteString("}")
	case *types.Interface:
		b.WriteString("interface{")
		t.Complete()
		for i := 0; i < t.NumMethods(); i++ {
			m := t.Method(i)
			b.WriteString(m.Name())
			canonWrite(b, m.Type(), tps, depth+1)
			b.WriteString(";")
		}
		var embeds []string
		for i := 0; i < t.NumEmbeddeds(); i++ {
			et := t.EmbeddedType(i)
			if _, isIface := et.Underlying().(*types.Interface); isIface {
				if _, isUnion := et.(*types.Union); !isUnion {
					if ei, ok := et.Underlying().(*types.Interface); ok && ei.IsMethodSet() {
						continue // methods already listed
					}
				}
			}
			var eb strings.Builder
			canonWrite(&eb, et, tps, depth+1)
			embeds = append(embeds, eb.String())
		}
		sort.Strings(embeds)
		for _, e := range embeds {
			b.WriteString("embed " + e + ";")
		}
		if t.IsComparable() && t.NumMethods() == 0 && len(embeds) == 0 {
			b.WriteString("comparable;")
		}
		b.WriteString("}")
	case *types.Union:
		var terms []string
		for i := 0; i < t.Len(); i++ {
			var tb strings.Builder
			if t.Term(i).Tilde() {
				tb.WriteString("~")
			}
			canonWrite(&tb, t.Term(i).Type(), tps, depth+1)
			terms = append(terms, tb.String())
		}
		sort.Strings(terms)
		b.WriteString(strings.Join(terms, "|"))
	case *types.Tuple:
		b.WriteString("(")
		for i := 0; i < t.Len(); i++ {
			if i > 0 {
				b.WriteString(",")
			}
			canonWrite(b, t.At(i).Type(), tps, depth+1)
		}
		b.WriteString(")")
	default:
		b.WriteString(t.String())
	}
}

// oracleC09: generic conformance including constraints; plus every type error (the
// self-check instantiation and every use of a type parameter must be valid Go).
func oracleC09(r *Result) []*Violation {
	if !r.ok() {
		return nil
	}
	out := typeErrors(r)
	tc := r.Typecheck()
	if tc.ParseErr != nil || tc.Pkg == nil {
		return out
	}
	mocks := r.Case.mockNames()
	pfx := "generic: "
	if len(tc.Errs) > 0 {
		pfx = "generic (output has type errors): "
	}
	for i, in := range r.Case.ifaceNames() {
		mock := tc.mockNamed(mocks[i])
		it, _, tps := tc.ifaceType(in)
		if mock == nil || it == nil {
			continue
		}
		if tps == nil || tps.Len() == 0 {
			if mock.TypeParams().Len() != 0 {
				out = append(out, r.viol(pfx+"mock of a non-generic interface is generic", ""))
			}
			continue
		}
		for _, d := range genericConformance(tc, mock, it, tps, true) {
			out = append(out, r.viol(pfx+d, ""))
		}
		// call record uses the parameters where the interface does
		for _, d := range recordConformance(mock, it, tps) {
			out = append(out, r.viol(pfx+d, ""))
		}
	}
	return dedupViol(out)
}

// recordConformance: the element struct of <M>Calls() has one field per parameter, in
// order, of the parameter's type (slice type for a variadic one). Works on the generic
// (uninstantiated) declarations by canonical printing with type parameters by index.
func recordConformance(mock *types.Named, iface types.Type, tps *types.TypeParamList) []string {
	it := iface.Underlying().(*types.Interface)
	var out []string
	for i := 0; i < it.NumMethods(); i++ {
		m := it.Method(i)
		sig := m.Type().(*types.Signature)
		var callsM *types.Func
		for j := 0; j < mock.NumMethods(); j++ {
			if mock.Method(j).Name() == m.Name()+"Calls" {
				callsM = mock.Method(j)
			}
		}
		if callsM == nil {
			out = append(out, fmt.Sprintf("no accessor %sCalls", m.Name()))
			continue
		}
		cs := callsM.Type().(*types.Signature)
		if cs.Params().Len() != 0 || cs.Results().Len() != 1 {
			out = append(out, fmt.Sprintf("%sCalls has an unexpected signature", m.Name()))
			continue
		}
		sl, ok := cs.Results().At(0).Type().(*types.Slice)
		if !ok {
			out = append(out, fmt.Sprintf("%sCalls does not return a slice", m.Name()))
			continue
		}
		st, ok := sl.Elem().Underlying().(*types.Struct)
		if !ok {
			out = append(out, fmt.Sprintf("%sCalls element is not a struct", m.Name()))
			continue
		}
		if st.NumFields() != sig.Params().Len() {
			out = append(out, fmt.Sprintf("%sCalls record has %d fields for %d parameters", m.Name(), st.NumFields(), sig.Params().Len()))
			continue
		}
		var rtps *types.TypeParamList
		if rs := cs.Recv(); rs != nil {
			rtps = cs.RecvTypeParams()
		}
		for p := 0; p < sig.Params().Len(); p++ {
			want := canonType(sig.Params().At(p).Type(), tps)
			got := canonType(st.Field(p).Type(), rtps)
			if want != got {
				out = append(out, fmt.Sprintf("%sCalls record field %d has type %s, parameter has %s", m.Name(), p, got, want))
			}
		}
	}
	return out
}

// ---- imports (C10, C11) ----

type importView struct {
	Spec      *ast.ImportSpec
	Path      string
	Alias     string // "" if none
	Qualifier string // alias or the package's real name ("" if unknown)
	Used      bool
}

func (tc *TC) imports() []importView {
	var out []importView
	used := map[*types.PkgName]bool{}
	for _, o := range tc.Info.Uses {
		if pn, ok := o.(*types.PkgName); ok {
			used[pn] = true
		}
	}
	for _, spec := range tc.File.Imports {
		p, _ := strconv.Unquote(spec.Path.Value)
		iv := importView{Spec: spec, Path: p}
		var pn *types.PkgName
		if spec.Name != nil {
			iv.Alias = spec.Name.Name
			pn, _ = tc.Info.Defs[spec.Name].(*types.PkgName)
		} else {
			pn, _ = tc.Info.Implicits[spec].(*types.PkgName)
		}
		if pn != nil {
			iv.Qualifier = pn.Name()
			iv.Used = used[pn]
		} else {
			iv.Qualifier = iv.Alias
		}
		out = append(out, iv)
	}
	return out
}

func validIdent(s string) bool {
	if s == "" || s == "_" || token.IsKeyword(s) {
		return false
	}
	for i, r := range s {
		if !(unicode.IsLetter(r) || r == '_' || (i > 0 && unicode.IsDigit(r))) {
			return false
		}
	}
	return utf8.ValidString(s)
}

// srcTypeMentioned is the independent walk for C10's -skip-ensure rule: does any method
// signature of the interface mention a type declared in the source package?
func srcTypeMentioned(t types.Type, src *types.Package, seen map[types.Type]bool) bool {
	if seen[t] {
		return false
	}
	seen[t] = true
	switch t := t.(type) {
	case *types.Alias:
		if t.Obj().Pkg() == src {
			return true
		}
		if ta := t.TypeArgs(); ta != nil {
			for i := 0; i < ta.Len(); i++ {
				if srcTypeMentioned(ta.At(i), src, seen) {
					return true
				}
			}
		}
		return false
	case *types.Named:
		if t.Obj().Pkg() == src {
			return true
		}
		if ta := t.TypeArgs(); ta != nil {
			for i := 0; i < ta.Len(); i++ {
				if srcTypeMentioned(ta.At(i), src, seen) {
					return true
				}
			}
		}
		return false
	case *types.TypeParam:
		return false
	case *types.Pointer:
		return srcTypeMentioned(t.Elem(), src, seen)
	case *types.Slice:
		return srcTypeMentioned(t.Elem(), src, seen)
	case *types.Array:
		return srcTypeMentioned(t.Elem(), src, seen)
	case *types.Chan:
		return srcTypeMentioned(t.Elem(), src, seen)
	case *types.Map:
		return srcTypeMentioned(t.Key(), src, seen) || srcTypeMentioned(t.Elem(), src, seen)
	case *types.Signature:
		for i := 0; i < t.Params().Len(); i++ {
			if srcTypeMentioned(t.Params().At(i).Type(), src, seen) {
				return true
			}
		}
		for i := 0; i < t.Results().Len(); i++ {
			if srcTypeMentioned(t.Results().At(i).Type(), src, seen) {
				return true
			}
		}
	case *types.Struct:
		for i := 0; i < t.NumFields(); i++ {
			if srcTypeMentioned(t.Field(i).Type(), src, seen) {
				return true
			}
		}
	case *types.Interface:
		for i := 0; i < t.NumExplicitMethods(); i++ {
			if srcTypeMentioned(t.ExplicitMethod(i).Type(), src, seen) {
				return true
			}
		}
		for i := 0; i < t.NumEmbeddeds(); i++ {
			if srcTypeMentioned(t.EmbeddedType(i), src, seen) {
				return true
			}
		}
	case *types.Union:
		for i := 0; i < t.Len(); i++ {
			if srcTypeMentioned(t.Term(i).Type(), src, seen) {
				return true
			}
		}
	}
	return false
}

// oracleC10: destination-package rules.
func oracleC10(r *Result) []*Violation {
	if !r.ok() {
		return nil
	}
	out := typeErrors(r)
	tc := r.Typecheck()
	if tc.ParseErr != nil {
		return out
	}
	hasSrcImport := false
	for _, spec := range tc.File.Imports {
		if p, _ := strconv.Unquote(spec.Path.Value); p == r.Src.Path {
			hasSrcImport = true
		}
	}
	if r.Case.Cfg.samePkg() {
		if hasSrcImport {
			out = append(out, r.viol("destination: file generated into the source package imports its own package", ""))
		}
		return dedupViol(out)
	}
	// other destination: is the source package needed?
	needed := !r.Case.Cfg.Skip
	if !needed {
		for _, in := range r.Case.ifaceNames() {
			_, it, tps := tc.ifaceType(in)
			if it == nil {
				continue
			}
			for i := 0; i < it.NumMethods(); i++ {
				if srcTypeMentioned(it.Method(i).Type(), r.Src.Types, map[types.Type]bool{}) {
					needed = true
				}
			}
			if tps != nil {
				for i := 0; i < tps.Len(); i++ {
					if srcTypeMentioned(tps.At(i).Constraint(), r.Src.Types, map[types.Type]bool{}) {
						needed = true
					}
				}
			}
		}
	}
	if needed && !hasSrcImport {
		out = append(out, r.viol("destination: source package needed but not imported", ""))
	}
	if !needed && hasSrcImport {
		out = append(out, r.viol("destination: -skip-ensure output imports the source package although no signature mentions its types", ""))
	}
	return dedupViol(out)
}

// oracleC11: import block exact, canonical, conflict-free.
func oracleC11(r *Result) []*Violation {
	if !r.ok() {
		return nil
	}
	out := typeErrors(r)
	tc := r.Typecheck()
	if tc.ParseErr != nil || tc.Info == nil {
		return out
	}
	ivs := tc.imports()
	paths := map[string]bool{}
	quals := map[string]string{}
	anyMethod := false
	for _, in := range r.Case.ifaceNames() {
		if _, it, _ := tc.ifaceType(in); it != nil && it.NumMethods() > 0 {
			anyMethod = true
		}
	}
	hasSync := false
	for _, iv := range ivs {
		if iv.Alias == "." || iv.Alias == "_" {
			out = append(out, r.viol("imports: dot or blank import in output", iv.Path))
		}
		if strings.Contains("/"+iv.Path, "/vendor/") {
			out = append(out, r.viol("imports: path carries a vendor prefix", iv.Path))
		}
		if paths[iv.Path] {
			out = append(out, r.viol("imports: package imported twice", iv.Path))
		}
		paths[iv.Path] = true
		if iv.Alias != "" && iv.Alias != "." && iv.Alias != "_" && !validIdent(iv.Alias) {
			out = append(out, r.viol("imports: alias is not a valid identifier", iv.Alias+" "+iv.Path))
		}
		if q := iv.Qualifier; q != "" {
			if other, dup := quals[q]; dup {
				out = append(out, r.viol("imports: two imports share a qualifier", q+": "+other+" and "+iv.Path))
			}
			quals[q] = iv.Path
		}
		if !iv.Used && len(tc.Errs) == 0 {
			out = append(out, r.viol("imports: imported but not used", iv.Path))
		}
		if iv.Path == "sync" {
			hasSync = true
		}
	}
	if hasSync != anyMethod {
		out = append(out, r.viol(fmt.Sprintf("imports: sync imported=%v but some mock has a method=%v", hasSync, anyMethod), ""))
	}
	// alias kept: natural qualifier = source alias (if the source files agree on one) or package name
	srcAlias := map[string]string{}
	conflictAlias := map[string]bool{}
	for _, f := range r.Src.Files {
		for _, spec := range f.Imports {
			if spec.Name == nil || spec.Name.Name == "." || spec.Name.Name == "_" {
				continue
			}
			p, _ := strconv.Unquote(spec.Path.Value)
			if a, ok := srcAlias[p]; ok && a != spec.Name.Name {
				conflictAlias[p] = true
			}
			srcAlias[p] = spec.Name.Name
		}
	}
	natural := map[string][]string{}
	realName := func(iv importView) string {
		// the package's declared name, from the type-checker
		var pn *types.PkgName
		if iv.Spec.Name != nil {
			pn, _ = tc.Info.Defs[iv.Spec.Name].(*types.PkgName)
		} else {
			pn, _ = tc.Info.Implicits[iv.Spec].(*types.PkgName)
		}
		if pn != nil && pn.Imported() != nil {
			return pn.Imported().Name()
		}
		return ""
	}
	for _, iv := range ivs {
		n := realName(iv)
		if a, ok := srcAlias[iv.Path]; ok && !conflictAlias[iv.Path] {
			n = a
		}
		natural[n] = append(natural[n], iv.Path)
	}
	// "kept when it conflicts with nothing" is judged only where nothing conflicts at all: the
	// natural qualifiers (source alias, else package name) of all imports of the file are
	// pairwise distinct, so no conflict resolution (whose cascades may legitimately take an
	// alias away) is involved.
	anyClash := false
	for _, ps := range natural {
		if len(ps) > 1 {
			anyClash = true
		}
	}
	for _, iv := range ivs {
		a, ok := srcAlias[iv.Path]
		if !ok || conflictAlias[iv.Path] || anyClash {
			continue
		}
		if len(natural[a]) == 1 && iv.Qualifier != a {
			out = append(out, r.viol("imports: source alias not kept although it conflicts with nothing", fmt.Sprintf("%s: source alias %s, output qualifier %s", iv.Path, a, iv.Qualifier)))
		}
	}
	return dedupViol(out)
}

// ---- names (C12) ----

var c12NameErr = regexp.MustCompile(`redeclared|is not an expression|is not a type|no new variables|declared and not used|duplicate field|not a package|cannot call non-function`)

func oracleC12(r *Result) []*Violation {
	if !r.ok() {
		return nil
	}
	out := typeErrors(r)
	if r.Case.Scope == "S-gen" {
		// generic interfaces are in C12's scope for the identifiers (type parameters are names the
		// method must still resolve); their other defects belong to C09
		var keep []*Violation
		for _, v := range out {
			if c12NameErr.MatchString(v.Diag) {
				keep = append(keep, v)
			}
		}
		out = keep
	}
	tc := r.Typecheck()
	if tc.ParseErr != nil {
		return out
	}
	for _, d := range tc.File.Decls {
		fd, ok := d.(*ast.FuncDecl)
		if !ok || fd.Recv == nil {
			continue
		}
		seen := map[string]bool{}
		recv := ""
		if len(fd.Recv.List) == 1 && len(fd.Recv.List[0].Names) == 1 {
			recv = fd.Recv.List[0].Names[0].Name
		}
		check := func(fl *ast.FieldList, what string) {
			if fl == nil {
				return
			}
			for _, f := range fl.List {
				for _, n := range f.Names {
					if n.Name == "_" {
						continue
					}
					if !validIdent(n.Name) {
						out = append(out, r.viol("names: "+what+" identifier is not a valid identifier", n.Name))
					}
					if seen[n.Name] {
						out = append(out, r.viol("names: duplicate "+what+" identifier", fd.Name.Name+": "+n.Name))
					}
					seen[n.Name] = true
					if n.Name == recv || n.Name == "callInfo" {
						out = append(out, r.viol("names: "+what+" identifier equals the receiver or the record variable", fd.Name.Name+": "+n.Name))
					}
				}
			}
		}
		check(fd.Type.Params, "parameter")
		check(fd.Type.Results, "result")
	}
	// record fields distinct
	ast.Inspect(tc.File, func(n ast.Node) bool {
		st, ok := n.(*ast.StructType)
		if !ok || st.Fields == nil {
			return true
		}
		seen := map[string]bool{}
		for _, f := range st.Fields.List {
			for _, nm := range f.Names {
				if seen[nm.Name] {
					out = append(out, r.viol("names: duplicate field in a generated struct", nm.Name))
				}
				seen[nm.Name] = true
			}
		}
		return true
	})
	return dedupViol(out)
}

// ---- format (C16) ----

const markerLine = "// Code generated by moq; DO NOT EDIT."

func declStrings(fset *token.FileSet, f *ast.File) []string {
	var out []string
	for _, d := range f.Decls {
		if gd, ok := d.(*ast.GenDecl); ok && gd.Tok == token.IMPORT {
			continue
		}
		var b bytes.Buffer
		// print without comments: strip Doc
		switch x := d.(type) {
		case *ast.FuncDecl:
			c := *x
			c.Doc = nil
			printer.Fprint(&b, fset, &c)
		case *ast.GenDecl:
			c := *x
			c.Doc = nil
			printer.Fprint(&b, fset, &c)
		}
		s, err := format.Source(b.Bytes())
		if err == nil {
			out = append(out, string(s))
		} else {
			out = append(out, b.String())
		}
	}
	sort.Strings(out)
	return out
}

func importPathSet(f *ast.File) string {
	var ps []string
	for _, s := range f.Imports {
		ps = append(ps, s.Path.Value)
	}
	sort.Strings(ps)
	return strings.Join(ps, ",")
}
