package main

// E1 checks that need their own scopes or compare several generations with each other:
// C13 (naming rule), C16 (formatters), C20 (joint vs solo), C14 (repetition leg),
// C19 (termination / diagnostics over every scope).

import (
	"bytes"
	"fmt"
	"go/ast"
	"go/format"
	"go/types"
	"os"
	"os/exec"
	"path/filepath"
	"sort"
	"strings"
	"sync"
	"sync/atomic"
	"unicode"
	"unicode/utf8"
)

// ---------- C13 ----------

// independent copy of golint's initialism list
var lintInitialisms = map[string]bool{
	"ACL": true, "API": true, "ASCII": true, "CPU": true, "CSS": true, "DNS": true, "EOF": true, "GUID": true, "HTML": true,
	"HTTP": true, "HTTPS": true, "ID": true, "IP": true, "JSON": true, "LHS": true, "QPS": true, "RAM": true, "RHS": true,
	"RPC": true, "SLA": true, "SMTP": true, "SQL": true, "SSH": true, "TCP": true, "TLS": true, "TTL": true, "UDP": true,
	"UI": true, "UID": true, "UUID": true, "URI": true, "URL": true, "UTF8": true, "VM": true, "XML": true, "XMPP": true,
	"XSRF": true, "XSS": true,
}

// refExported is the reference rule for call-record field names.
func refExported(name string) string {
	if lintInitialisms[strings.ToUpper(name)] {
		return strings.ToUpper(name)
	}
	r, n := utf8.DecodeRuneInString(name)
	return string(unicode.ToUpper(r)) + name[n:]
}

// names moq itself must rename (they collide with something by C12): excluded from C13's alphabet.
var c13Excluded = map[string]bool{
	"mock": true, "callInfo": true, "nil": true, "append": true, "panic": true, "error": true, "any": true,
	"string": true, "bool": true, "byte": true, "rune": true, "uintptr": true, "int": true, "int8": true, "int16": true, "int32": true,
	"int64": true, "uint": true, "uint8": true, "uint16": true, "uint32": true, "uint64": true, "float32": true, "float64": true,
	"complex64": true, "complex128": true, "sync": true, "ip": false,
}

func casePatterns(w string) []string {
	w = strings.ToLower(w)
	var out []string
	if len(w) <= 5 {
		for m := 0; m < 1<<len(w); m++ {
			b := []byte(w)
			for i := range b {
				if m>>i&1 == 1 {
					b[i] = byte(unicode.ToUpper(rune(b[i])))
				}
			}
			out = append(out, string(b))
		}
		return out
	}
	alt := []byte(w)
	for i := range alt {
		if i%2 == 1 {
			alt[i] = byte(unicode.ToUpper(rune(alt[i])))
		}
	}
	return []string{w, strings.ToUpper(w), strings.ToUpper(w[:1]) + w[1:], string(alt)}
}

type c13Expect struct {
	Param, Field string
}

// unnamed parameter types with the name the documented rule derives for them
var c13Unnamed = []struct{ Type, Name string }{
	{"string", "s"}, {"int", "n"}, {"int64", "n"}, {"uint8", "n"}, {"bool", "b"}, {"float64", "f"}, {"error", "err"},
	{"Loc", "loc"}, {"*Loc", "loc"}, {"@{~/a/foo}.T", "t"}, {"LocI", "locI"}, {"KeyImpl", "keyImpl"},
	{"[]Loc", "locs"}, {"[]int", "ints"}, {"[]string", "strings"}, {"[3]Loc", "locs"}, {"[]*Loc", "locs"},
	{"map[string]int", "stringToInt"}, {"map[string]Loc", "stringToLoc"}, {"map[Loc]string", "locToString"},
	{"chan int", "intCh"}, {"chan Loc", "locCh"}, {"<-chan string", "stringCh"},
	{"[]error", "errs"}, {"chan error", "errCh"}, {"map[string]error", "stringToErr"}, {"*error", "err"}, {"[3]error", "errs"},
	{"*string", "s"}, {"*int", "n"}, {"[]*int", "ns"}, {"**Loc", "loc"}, {"map[string]*int", "stringToN"}, {"[]*string", "ss"},
	{"func()", "fn"}, {"func(int) string", "fn"}, {"@{time}.Duration", "duration"}, {"@{~/a/foo}.I", "i"},
}

func scopeC13() ([]*SrcPkg, map[string]map[string]c13Expect) {
	expect := map[string]map[string]c13Expect{} // iface -> method -> expectation
	p := newPacker("c13", 200)
	var names []string
	seen := map[string]bool{}
	addName := func(n string) {
		if !seen[n] && !c13Excluded[n] && !c13Excluded[strings.ToLower(n)] && validIdent(n) {
			seen[n] = true
			names = append(names, n)
		}
	}
	var inits []string
	for k := range lintInitialisms {
		inits = append(inits, k)
	}
	sort.Strings(inits)
	for _, in := range inits {
		for _, cp := range casePatterns(in) {
			addName(cp)
		}
		l := strings.ToLower(in)
		addName("user" + in)
		addName(l + "x")
		addName(l + "s")
		addName("x" + l)
		addName(l + "_")
		addName(l + "1")
	}
	for _, n := range []string{"a", "x", "ab", "aB", "Ab", "a1", "a_b", "_a", "x_", "camelCase", "PascalCase", "snake_case", "aé", "ctx",
		"req", "i", "j", "k", "v", "s", "n", "b", "f", "err", "fn", "val", "foo", "fooBar", "A", "Z", "z9", "_1", "ö", "λx", "Ωmega", "éa", "ñu"} {
		addName(n)
	}
	const perIface = 40
	k := 0
	for i := 0; i < len(names); i += perIface {
		end := i + perIface
		if end > len(names) {
			end = len(names)
		}
		iname := fmt.Sprintf("NM%d", k)
		k++
		var ms []string
		expect[iname] = map[string]c13Expect{}
		for j, n := range names[i:end] {
			m := fmt.Sprintf("M%d", j)
			ms = append(ms, fmt.Sprintf("%s(%s int)", m, n))
			expect[iname][m] = c13Expect{Param: n, Field: refExported(n)}
		}
		p.add(IfaceCase{Name: iname, Tags: []string{"c13:named"}, Scope: "S-c13"}, fmt.Sprintf("type %s interface{ %s }", iname, strings.Join(ms, "; ")))
	}
	// unnamed
	iname := "UN0"
	// A0 sorts first and forces numbered names (s1, s2, n1, n2) in its own scope; the rule
	// for the single-parameter methods after it must not be affected
	ms := []string{"A0(string, string, int, int)"}
	expect[iname] = map[string]c13Expect{}
	for j, u := range c13Unnamed {
		m := fmt.Sprintf("M%d", j)
		ms = append(ms, fmt.Sprintf("%s(%s)", m, u.Type))
		expect[iname][m] = c13Expect{Param: u.Name, Field: refExported(u.Name)}
	}
	p.add(IfaceCase{Name: iname, Tags: []string{"c13:unnamed"}, Scope: "S-c13"}, fmt.Sprintf("type %s interface{ %s }", iname, strings.Join(ms, "; ")))
	// the first parameter is named like the source package (or like nothing special) and a later
	// parameter has a type of the source package: the first name collides with nothing
	expect["OW0"] = map[string]c13Expect{"M0": {"src", "Src"}, "M1": {"loc2", "Loc2"}, "M2": {"box", "Box"}}
	p.add(IfaceCase{Name: "OW0", Tags: []string{"c13:own"}, Scope: "S-c13"}, "type OW0 interface{ M0(src int, l Loc, e LocI); M1(loc2 string, _ *Loc) Loc; M2(box int, b Box[Loc]) }")
	return p.pkgs, expect
}

func oracleC13(expect map[string]map[string]c13Expect) func(r *Result) []*Violation {
	return func(r *Result) []*Violation {
		if !r.ok() {
			return nil
		}
		tc := r.Typecheck()
		if tc.ParseErr != nil || tc.Pkg == nil {
			return []*Violation{r.viol("naming: output does not parse or type-check at all", "")}
		}
		var out []*Violation
		mocks := r.Case.mockNames()
		for i, in := range r.Case.ifaceNames() {
			if in == "OW0" && !r.Case.Cfg.samePkg() {
				continue // in another package the source package's qualifier is imported: the name src does collide there
			}
			mock := tc.mockNamed(mocks[i])
			if mock == nil {
				out = append(out, r.viol("naming: mock type not found", mocks[i]))
				continue
			}
			st, _ := mock.Underlying().(*types.Struct)
			for mname, exp := range expect[in] {
				// function field parameter name
				if st != nil {
					for j := 0; j < st.NumFields(); j++ {
						if f := st.Field(j); f.Name() == mname+"Func" {
							if sig, ok := f.Type().(*types.Signature); ok && sig.Params().Len() >= 1 {
								if got := sig.Params().At(0).Name(); got != exp.Param {
									out = append(out, r.viol("naming: parameter name in the function field differs from the rule", fmt.Sprintf("%s.%s: got %q want %q", in, mname, got, exp.Param)))
								}
							}
						}
					}
				}
				for j := 0; j < mock.NumMethods(); j++ {
					m := mock.Method(j)
					sig := m.Type().(*types.Signature)
					if m.Name() == mname && sig.Params().Len() >= 1 {
						if got := sig.Params().At(0).Name(); got != exp.Param {
							out = append(out, r.viol("naming: parameter name in the method differs from the rule", fmt.Sprintf("%s.%s: got %q want %q", in, mname, got, exp.Param)))
						}
					}
					if m.Name() == mname+"Calls" && sig.Results().Len() == 1 {
						if sl, ok := sig.Results().At(0).Type().(*types.Slice); ok {
							if rs, ok := sl.Elem().Underlying().(*types.Struct); ok && rs.NumFields() >= 1 {
								if got := rs.Field(0).Name(); got != exp.Field {
									out = append(out, r.viol("naming: call-record field name differs from the rule", fmt.Sprintf("%s.%s: parameter %q: got field %q want %q", in, mname, exp.Param, got, exp.Field)))
								}
							} else {
								out = append(out, r.viol("naming: call record does not have exactly one field", in+"."+mname))
							}
						}
					}
				}
			}
		}
		return dedupViolDetail(out)
	}
}

func dedupViolDetail(in []*Violation) []*Violation {
	seen := map[string]bool{}
	var out []*Violation
	for _, v := range in {
		k := v.Diag + "|" + v.Detail
		if !seen[k] {
			seen[k] = true
			out = append(out, v)
		}
	}
	return out
}

// ---------- grouped checks ----------

type grouped struct {
	mu      sync.Mutex
	results map[string][]*Result
}

func (g *grouped) put(key string, r *Result) {
	g.mu.Lock()
	if g.results == nil {
		g.results = map[string][]*Result{}
	}
	g.results[key] = append(g.results[key], r)
	g.mu.Unlock()
}

func cfgKeyNoFmt(c Cfg) string {
	c.Fmt = 0
	return c.String()
}

// runC16: formatter relations.
func runC16(tier string) int {
	rep := NewReport("C16", tier, "model_checking", "E1")
	var pkgs []*SrcPkg
	pkgs = append(pkgs, scopeCfg()...)
	pr := scopeType(1, "PR")
	pkgs = append(pkgs, pr...)
	pkgs = append(pkgs, scopeGen()...)
	pkgs = append(pkgs, scopeImp(1, true)...)
	base := []Cfg{{}, {Stub: true, Resets: true, Pkg: 2}, {Skip: true, Pkg: 3, Custom: true}, {Resets: true, Pkg: 1, Stub: true, Skip: true}}
	if tier == "thorough" {
		base = nil
		for _, c := range allCfgs() {
			if c.Fmt == 0 && c.Stub == c.Resets && (c.Skip || !c.Custom) {
				base = append(base, c)
			}
		}
		pkgs = append(pkgs, scopeImp(2, false)...)
	}
	var cfgs []Cfg
	for _, b := range base {
		for f := 0; f < 4; f++ {
			c := b
			c.Fmt = f
			cfgs = append(cfgs, c)
		}
	}
	var cases []*Case
	for _, p := range pkgs {
		for _, ic := range p.Ifaces {
			full := ic.Scope == "S-cfg"
			for ci, c := range cfgs {
				if !full && tier != "thorough" && ci/4 >= 2 {
					continue
				}
				if ic.InPlaceOnly && !c.samePkg() {
					continue
				}
				cases = append(cases, &Case{Dir: p.Dir, Ifaces: []string{ic.Name}, Cfg: c, Scope: ic.Scope})
			}
		}
	}
	work := workDir()
	defer cleanup(work)
	fx := NewFixture(work+"/fx", dedupPkgs(pkgs))
	validateFixture(fx)
	g := &grouped{}
	runCases(fx, cases, rep, func(r *Result) []*Violation {
		g.put(r.Case.Dir+"|"+strings.Join(r.Case.Ifaces, ",")+"|"+cfgKeyNoFmt(r.Case.Cfg), r)
		return nil
	})
	groups, gofmtChecked := 0, 0
	var gofmtInputs [][]byte
	for _, rs := range g.results {
		by := map[int]*Result{}
		for _, r := range rs {
			by[r.Case.Cfg.Fmt] = r
		}
		def, gi, noop, gf := by[0], by[1], by[2], by[3]
		if def == nil || gi == nil || noop == nil || gf == nil {
			continue
		}
		groups++
		v := func(r *Result, diag, detail string) { rep.Violate(r.viol("format: "+diag, detail)) }
		if def.ok() != gf.ok() || (def.ok() && !bytes.Equal(def.Resp.Out, gf.Resp.Out)) {
			v(def, "-fmt gofmt and the default formatter give different results", "")
		}
		if def.ok() {
			out := def.Resp.Out
			if fs, err := format.Source(out); err != nil || !bytes.Equal(fs, out) {
				v(def, "default output is not a fixed point of gofmt", "")
			}
			if len(gofmtInputs) < 400 && len(out) > 0 {
				gofmtInputs = append(gofmtInputs, out)
			}
			lines := bytes.SplitN(out, []byte("\n"), 2)
			if string(lines[0]) != markerLine {
				v(def, "first line is not the generated-code marker", string(lines[0]))
			}
			if f, err := fx.parse("o.go", out); err == nil {
				if fx.fset.Position(f.Package).Line <= 1 {
					v(def, "marker does not precede the package clause", "")
				}
			}
		}
		if noop.ok() && def.ok() {
			if fs, err := format.Source(noop.Resp.Out); err != nil || !bytes.Equal(fs, def.Resp.Out) {
				v(noop, "gofmt applied to the noop output differs from the default output", "")
			}
			nl := bytes.SplitN(noop.Resp.Out, []byte("\n"), 2)
			if string(nl[0]) != markerLine {
				v(noop, "first line of the noop output is not the generated-code marker", string(nl[0]))
			}
		}
		if noop.ok() && !def.ok() {
			// default formatter rejected what noop emitted: the noop output must then be unformattable
			if _, err := format.Source(noop.Resp.Out); err == nil {
				v(def, "default formatter failed although the unformatted output is formattable", def.Resp.Err)
			}
		}
		if gi.ok() && def.ok() {
			fd, e1 := fx.parse("d.go", def.Resp.Out)
			fg, e2 := fx.parse("g.go", gi.Resp.Out)
			if e1 != nil || e2 != nil {
				v(gi, "goimports output does not parse", "")
			} else {
				// Declarations must be the same. Imports: same set of paths, except that
				// goimports may drop imports that the default output does not use (only
				// possible when C11 is violated; reported there).
				if strings.Join(declStrings(fx.fset, fd), "\n") != strings.Join(declStrings(fx.fset, fg), "\n") {
					v(gi, "goimports output has different declarations than the default output", "")
				}
				if importPathSet(fd) != importPathSet(fg) {
					v(gi, "goimports output imports a different set of paths than the default output", importPathSet(fd)+" vs "+importPathSet(fg))
				}
				gl := bytes.SplitN(gi.Resp.Out, []byte("\n"), 2)
				if string(gl[0]) != markerLine {
					v(gi, "first line of the goimports output is not the generated-code marker", string(gl[0]))
				}
			}
		}
	}
	// cross-check go/format against the gofmt binary on a fixed enumeration of outputs
	if len(gofmtInputs) > 0 {
		dir := filepath.Join(work, "gofmtcheck")
		os.MkdirAll(dir, 0o755)
		for i, b := range gofmtInputs {
			os.WriteFile(filepath.Join(dir, fmt.Sprintf("f%d.go", i)), b, 0o644)
		}
		cmd := exec.Command(goRoot+"/bin/gofmt", "-l", dir)
		outb, err := cmd.CombinedOutput()
		gofmtChecked = len(gofmtInputs)
		if err != nil || len(bytes.TrimSpace(outb)) != 0 {
			rep.Violate(&Violation{Diag: "format: gofmt -l lists default outputs as not formatted", Case: "gofmt cross-check", Detail: string(outb)})
		}
	}
	// Sequences on one -out path: a run with formatter b over a file written with formatter a
	// must leave exactly b's output (all ordered pairs of the four -fmt values).
	{
		seqPkg := fx.Pkgs[0]
		var seqIfaces []string
		for _, ic := range seqPkg.Ifaces {
			if len(seqIfaces) < 6 && ic.Scope == "S-cfg" {
				seqIfaces = append(seqIfaces, ic.Name)
			}
		}
		fmts := []string{"", "gofmt", "noop", "goimports"}
		type sq struct {
			iface string
			a, b  int
		}
		var sqs []sq
		for _, in := range seqIfaces {
			for a := range fmts {
				for b := range fmts {
					if a != b {
						sqs = append(sqs, sq{in, a, b})
					}
				}
			}
		}
		var seqRuns int64
		parallelDo(len(sqs), nproc(), func(i int) {
			s := sqs[i]
			dir, err := os.MkdirTemp(work, "seq-")
			must(err)
			defer os.RemoveAll(dir)
			out := filepath.Join(dir, "m_moq.go")
			arg := func(f string, toFile bool) []string {
				var a []string
				if f != "" {
					a = append(a, "-fmt", f)
				}
				if toFile {
					a = append(a, "-out", out)
				}
				return append(a, ".", s.iface)
			}
			src := filepath.Join(fx.Root, seqPkg.Dir)
			r1 := fx.cli(src, false, nil, arg(fmts[s.a], true)...)
			r2 := fx.cli(src, false, nil, arg(fmts[s.b], true)...)
			ref := fx.cli(src, false, nil, arg(fmts[s.b], false)...)
			atomic.AddInt64(&seqRuns, 3)
			got, _ := os.ReadFile(out)
			if r1.Exit != 0 || r2.Exit != 0 || ref.Exit != 0 || !bytes.Equal(got, ref.Stdout) {
				rep.Violate(&Violation{Diag: "format: a run over a file written with another formatter does not leave its own output", Features: []string{"c16:sequence"},
					Case:   fmt.Sprintf("%s %s: moq -fmt %q -out F ; moq -fmt %q -out F", seqPkg.Dir, s.iface, fmts[s.a], fmts[s.b]),
					Detail: fmt.Sprintf("exit codes %d %d %d; file has %d bytes, -fmt %q to standard output gives %d bytes", r1.Exit, r2.Exit, ref.Exit, len(got), fmts[s.b], len(ref.Stdout))})
			}
		})
		rep.Add("evaluations", int(seqRuns))
		rep.Set("formatter_sequence_pairs", len(sqs))
	}
	// the -fmt flag (and the others) must reach the generator unchanged through the CLI
	var parity []*Case
	for _, c := range cases {
		if c.Scope == "S-cfg" && !c.Cfg.Custom {
			parity = append(parity, c)
		}
	}
	cliParity(fx, parity, rep, "format: ")
	rep.Set("groups_compared", groups)
	rep.Set("oracle_crosschecks", map[string]int{"gofmt -l": gofmtChecked})
	rep.Set("rule", "for every interface × flag set, the four generations (-fmt unset, gofmt, noop, goimports) are compared: default is a go/format fixed point with the marker first; gofmt(noop)==default; goimports has the same declarations and import paths; distinct = distinct emitted files")
	rep.Assume = []string{"go/format.Source is the reference formatter (cross-checked against the gofmt binary)"}
	return rep.Finish()
}

// ---------- C20 ----------

// mockShape is the canonical description of one mock type: field types, method set.
func mockShape(tc *TC, name string) (string, bool) {
	m := tc.mockNamed(name)
	if m == nil {
		return "", false
	}
	var b strings.Builder
	tps := m.TypeParams()
	fmt.Fprintf(&b, "tparams=%d;", tps.Len())
	for i := 0; i < tps.Len(); i++ {
		b.WriteString(canonType(tps.At(i).Constraint(), tps) + ";")
	}
	if st, ok := m.Underlying().(*types.Struct); ok {
		for i := 0; i < st.NumFields(); i++ {
			f := st.Field(i)
			b.WriteString("field " + f.Name() + " " + canonNoNames(f.Type(), tps) + ";")
		}
	}
	var ms []string
	for i := 0; i < m.NumMethods(); i++ {
		fn := m.Method(i)
		sig := fn.Type().(*types.Signature)
		ms = append(ms, "method "+fn.Name()+" "+canonNoNames(sig, sig.RecvTypeParams()))
	}
	sort.Strings(ms)
	b.WriteString(strings.Join(ms, ";"))
	return b.String(), true
}

// runC20: one mock per argument, named as requested, same shape as when generated alone.
func runC20(tier string) int {
	rep := NewReport("C20", tier, "model_checking", "E1")
	sp := scopeListPkg()
	lists := scopeListArgs()
	cfgs := []Cfg{{}, {Stub: true, Resets: true, Pkg: 2}, {Skip: true, Pkg: 3, Fmt: 2}, {Pkg: 1, Fmt: 1, Resets: true}}
	if tier == "thorough" {
		cfgs = cfg24()
	}
	var cases []*Case
	for _, c := range cfgs {
		for _, l := range lists {
			cases = append(cases, &Case{Dir: sp.Dir, Ifaces: l, Cfg: c, Scope: "S-list"})
		}
		if !c.samePkg() {
			// in another package a mock may be called exactly like its interface
			for _, l := range [][]string{{"LF:LF"}, {"LF:LF", "LB:FakeB"}, {"LC", "LF:LF"}} {
				cases = append(cases, &Case{Dir: sp.Dir, Ifaces: l, Cfg: c, Scope: "S-list"})
			}
		}
	}
	work := workDir()
	defer cleanup(work)
	fx := NewFixture(work+"/fx", []*SrcPkg{sp})
	validateFixture(fx)
	type soloKey struct {
		arg string
		cfg Cfg
	}
	solo := map[soloKey]string{}
	soloClean := map[soloKey]bool{}
	var all []*Result
	var mu sync.Mutex
	runCases(fx, cases, rep, func(r *Result) []*Violation {
		mu.Lock()
		all = append(all, r)
		mu.Unlock()
		return nil
	})
	// solo shapes first
	for _, r := range all {
		if len(r.Case.Ifaces) == 1 && r.ok() {
			if tc := r.Typecheck(); tc.ParseErr == nil && len(tc.Errs) == 0 {
				soloClean[soloKey{r.Case.Ifaces[0], r.Case.Cfg}] = true
			}
			if s, ok := mockShape(r.Typecheck(), r.Case.mockNames()[0]); ok {
				solo[soloKey{r.Case.Ifaces[0], r.Case.Cfg}] = s
			}
		}
	}
	compared := 0
	for _, r := range all {
		if !r.ok() {
			continue
		}
		tc := r.Typecheck()
		if tc.ParseErr != nil || tc.File == nil {
			rep.Violate(r.viol("list: joint output does not parse", ""))
			continue
		}
		if len(tc.Errs) > 0 && len(r.Case.Ifaces) > 1 {
			// the jointly generated file has type errors: C20's if every member is clean alone
			allClean := true
			for _, a := range r.Case.Ifaces {
				if !soloClean[soloKey{a, r.Case.Cfg}] {
					allClean = false
				}
			}
			if allClean {
				rep.Violate(r.viol("list: jointly generated file does not type-check although each of its mocks does when generated alone", tc.Errs[0].Error()))
				continue
			}
		}
		// top-level struct type declarations, in order
		var decl []string
		for _, d := range tc.File.Decls {
			gd, ok := d.(*ast.GenDecl)
			if !ok {
				continue
			}
			for _, s := range gd.Specs {
				if ts, ok := s.(*ast.TypeSpec); ok {
					if _, ok := ts.Type.(*ast.StructType); ok {
						decl = append(decl, ts.Name.Name)
					}
				}
			}
		}
		want := r.Case.mockNames()
		if strings.Join(decl, ",") != strings.Join(want, ",") {
			// duplicated interface under the same mock name is the user's error; different names are fine
			rep.Violate(r.viol("list: mock types declared are not exactly the requested ones in argument order", fmt.Sprintf("declared %v want %v", decl, want)))
			continue
		}
		for i, a := range r.Case.Ifaces {
			if len(r.Case.Ifaces) == 1 {
				continue
			}
			js, ok := mockShape(tc, want[i])
			ss, ok2 := solo[soloKey{a, r.Case.Cfg}]
			if !ok || !ok2 {
				continue
			}
			compared++
			if js != ss {
				// the solo generation may itself be broken (C01); only a difference is C20's
				rep.Violate(r.viol("list: mock generated jointly differs (as types) from the mock generated alone", fmt.Sprintf("%s:\n joint: %s\n solo:  %s", a, js, ss)))
			}
		}
	}
	rep.Set("joint_vs_solo_comparisons", compared)
	rep.Set("rule", "all ordered lists of 1..3 distinct interfaces from a pool of 6 with different import needs (plus custom-name variants) × configurations; oracle: declared struct types == requested mock names in order; canonical go/types shape (field types, method signatures, constraints; names of record fields and parameters ignored) of each mock equal between the joint and the solo generation")
	rep.Assume = []string{"go/types canonical printing with full package paths decides type equality across separately checked outputs"}
	return rep.Finish()
}

// ---------- C14 (repetition leg) ----------

func runC14E1(rep *Report, tier string) {
	var pkgs []*SrcPkg
	pkgs = append(pkgs, scopeCfg()...)
	pkgs = append(pkgs, scopeName2("rest")...)
	k := 2
	if tier == "thorough" {
		k = 3
		pkgs = append(pkgs, scopeName2("pairs")...)
	}
	impPkgs := scopeImp(2, true)
	if k == 3 {
		impPkgs = append(impPkgs, scopeImp(3, false)...)
	}
	for _, p := range impPkgs {
		// the alias modes that influence conflict resolution (the others only change spelling)
		mode := ""
		for _, t := range p.Ifaces[0].Tags {
			if strings.HasPrefix(t, "impmode:") {
				mode = t[8:]
			}
		}
		if mode == "plain" || mode == "alias-clash" || mode == "alias-as-first" || mode == "alias-same" || tier == "thorough" {
			pkgs = append(pkgs, p)
		}
	}
	pkgs = append(pkgs, det14Pkgs()...)
	// shapes whose single parameter type mentions three same-named packages, and the generic scope
	// (it contains inputs the formatter rejects: a failed generation must not influence the next one
	// in the same process)
	for _, p := range scopeEmbed() {
		pkgs = append(pkgs, p)
	}
	pkgs = append(pkgs, scopeGen()...)
	cfgs := []Cfg{{Stub: true}, {Pkg: 2, Resets: true}}
	work := workDir()
	defer cleanup(work)
	fx := NewFixture(work+"/fx", dedupPkgs(pkgs))
	validateFixture(fx)
	cases := casesFor(fx.Pkgs, cfgs, "")
	// every case: 1 + Repeat generations in one process (fresh Mocker each) ...
	var env []string
	for _, e := range fx.Env {
		if !strings.HasPrefix(e, "GOMAXPROCS=") {
			env = append(env, e) // goroutine-order nondeterminism would be hidden with one P
		}
	}
	env = append(env, "GOMAXPROCS=4")
	pool := NewPool(nproc(), env)
	reqs := make([]GenReq, len(cases))
	for i, c := range cases {
		reqs[i] = c.req(fx)
		reqs[i].Repeat = 2
		if c.Scope == "S-det" || c.Scope == "S-embed" {
			reqs[i].Repeat = 40 // rare schedules / orders: many fresh generators in one process
		}
	}
	first := make([]GenResp, len(cases))
	pool.Run(reqs, func(i int, resp GenResp) { first[i] = resp })
	// ... and once more in another process (workers are restarted; order reversed so a
	// case lands on a different worker with a different history)
	rev := make([]GenReq, len(cases))
	for i := range reqs {
		rev[len(reqs)-1-i] = reqs[i]
		rev[len(reqs)-1-i].Repeat = 0
	}
	second := make([]GenResp, len(cases))
	pool.Run(rev, func(i int, resp GenResp) { second[len(reqs)-1-i] = resp })
	evals, distinct := 0, map[string]bool{}
	for i, c := range cases {
		a, b := first[i], second[i]
		r := &Result{Case: c, Resp: a, Fx: fx, Src: fx.Src(c.Dir)}
		if a.Died != "" || b.Died != "" {
			continue // C19's
		}
		evals += 2 + len(a.Repeats)
		distinct[hashBytes(a.Out)] = true
		outs := [][]byte{a.Out}
		if a.Err != "" {
			outs[0] = []byte("ERR:" + a.Err)
		}
		outs = append(outs, a.Repeats...)
		if b.Err != "" {
			outs = append(outs, []byte("ERR:"+b.Err))
		} else {
			outs = append(outs, b.Out)
		}
		for k := 1; k < len(outs); k++ {
			if !bytes.Equal(outs[0], outs[k]) {
				rep.Violate(r.viol("determinism: repeated generation of the same case gives different bytes", fmt.Sprintf("generation 0 vs %d (0-2 same process, 3 other process)", k)))
				break
			}
		}
	}
	rep.Add("evaluations", evals)
	rep.Set("repetition_leg_cases", len(cases))
	rep.Set("repetition_leg_distinct_outputs", len(distinct))
	if len(cases) > 0 {
		c := cases[0]
		rep.Sample(map[string]any{"leg": "repetition", "case": c.String(), "generations": 4})
	}
}

// det14Pkgs: shapes in which a map-iteration-order dependent rename is known to be possible.
func det14Pkgs() []*SrcPkg {
	p := newPacker("det", 50)
	decls := []string{
		"type D0 interface{ M(foo int, m map[@{~/a/foo}.T]@{~/names/fooMoqParam}.T) }",
		"type D1 interface{ M(s int, err string, m map[@{~/names/s}.T]@{~/names/err}.T) }",
		"type D2 interface{ M(foo int, f func(@{~/a/foo}.T, @{~/names/fooMoqParam}.T, @{~/names/s}.T), s string) }",
		"type D3 interface{ M(api int, m map[@{~/v1/api}.T]@{~/v2/api}.T) }",
		"type D4 interface{ M(n int, s string, x struct{ A @{~/names/n}.T; B @{~/names/s}.T }) }",
	}
	for i, d := range decls {
		p.add(IfaceCase{Name: fmt.Sprintf("D%d", i), Tags: []string{"det:" + fmt.Sprint(i)}, Scope: "S-det"}, d)
	}
	// one import path under a different alias in each of five source files
	sp := &SrcPkg{Dir: "s/detalias_0", Name: "src"}
	for i := 0; i < 5; i++ {
		sp.Files = append(sp.Files, SrcFile{Name: fmt.Sprintf("f%d.go", i), Aliases: map[string]string{"~/a/foo": fmt.Sprintf("al%d", i)},
			Decls: fmt.Sprintf("type U%d interface{ M%d(@{~/a/foo}.T) @{~/a/foo}.T }\n", i, i)})
	}
	sp.Files = append(sp.Files, SrcFile{Name: "i.go", Decls: "type DA interface{ U0; U1; U2; U3; U4 }\n"})
	sp.Ifaces = []IfaceCase{{Name: "DA", Src: "five files import example.com/m/a/foo as al0..al4; DA embeds one interface of each", Tags: []string{"det:alias"}, Scope: "S-det"}}
	return append(p.pkgs, sp)
}

// ---------- C19 (E1 leg): every case of every scope terminates with output or a diagnostic ----------

func oracleC19(r *Result) []*Violation {
	resp := r.Resp
	switch {
	case resp.Died != "":
		return []*Violation{r.viol("termination: "+classifyDeath(resp.Died), resp.Died)}
	case resp.Panic != "":
		return []*Violation{r.viol("termination: Go panic escaped the generator: "+firstLines(resp.Panic, 1), resp.Panic)}
	case resp.Err != "":
		if resp.Err == "(empty error text)" {
			return []*Violation{r.viol("diagnostic: error without text", "")}
		}
		if strings.Contains(resp.Err, "goroutine ") || strings.Contains(resp.Err, "runtime error") {
			return []*Violation{r.viol("diagnostic: error text carries a runtime panic", resp.Err)}
		}
		known := false
		for _, p := range []string{"interface not found: ", "is not an interface", "go/format: ", "goimports: ", "couldn't load source package: "} {
			if strings.Contains(resp.Err, p) {
				known = true
			}
		}
		if !known {
			return []*Violation{r.viol("diagnostic: error names neither the offending type nor the stage", resp.Err)}
		}
	default:
		if len(resp.Out) == 0 {
			return []*Violation{r.viol("termination: neither output nor error", "")}
		}
	}
	return nil
}

func classifyDeath(s string) string {
	switch {
	case strings.Contains(s, "stack overflow") || strings.Contains(s, "goroutine stack exceeds"):
		return "stack exhausted (unbounded recursion)"
	case strings.Contains(s, "watchdog"):
		return "no answer within the watchdog (hang)"
	case strings.Contains(s, "fatal error"):
		return "fatal runtime error"
	}
	return "generator process died"
}
