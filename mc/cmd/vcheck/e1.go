package main

// E1 genspace: bounded-exhaustive exploration of the generator's input × configuration
// space through the real moq.New / Mocker.Mock, with go/types as the oracle.

import (
	"crypto/sha256"
	"encoding/hex"
	"fmt"
	"go/ast"
	"go/types"
	"path/filepath"
	"strings"
	"sync"
)

// Cfg is one point of the configuration space K (192 points).
type Cfg struct {
	Stub, Skip, Resets bool
	Pkg                int // 0 implicit same, 1 explicit same name, 2 other, 3 <src>_test
	Fmt                int // 0 default (""), 1 goimports, 2 noop
	Custom             bool
}

var fmtNames = []string{"", "goimports", "noop", "gofmt"}
var pkgModeNames = []string{"same-implicit", "same-explicit", "other", "test"}

func (c Cfg) String() string {
	return fmt.Sprintf("stub=%v skip-ensure=%v with-resets=%v pkg=%s fmt=%q custom-name=%v",
		c.Stub, c.Skip, c.Resets, pkgModeNames[c.Pkg], fmtNames[c.Fmt], c.Custom)
}

func (c Cfg) tags() []string {
	return []string{fmt.Sprintf("cfg:stub=%v", c.Stub), fmt.Sprintf("cfg:skip=%v", c.Skip), fmt.Sprintf("cfg:resets=%v", c.Resets),
		"cfg:pkg=" + pkgModeNames[c.Pkg], "cfg:fmt=" + fmtNames[c.Fmt], fmt.Sprintf("cfg:custom=%v", c.Custom)}
}

func (c Cfg) samePkg() bool { return c.Pkg <= 1 }

func allCfgs() []Cfg {
	var out []Cfg
	for _, stub := range []bool{false, true} {
		for _, skip := range []bool{false, true} {
			for _, rst := range []bool{false, true} {
				for pkg := 0; pkg < 4; pkg++ {
					for f := 0; f < 3; f++ {
						for _, cu := range []bool{false, true} {
							out = append(out, Cfg{stub, skip, rst, pkg, f, cu})
						}
					}
				}
			}
		}
	}
	return out
}

// pairwiseCfgs greedily selects a small set of configurations in which every pair of
// flag values occurs (deterministic).
func pairwiseCfgs() []Cfg {
	all := allCfgs()
	vals := func(c Cfg) [6]int {
		b := func(x bool) int {
			if x {
				return 1
			}
			return 0
		}
		return [6]int{b(c.Stub), b(c.Skip), b(c.Resets), c.Pkg, c.Fmt, b(c.Custom)}
	}
	type pair struct{ i, vi, j, vj int }
	need := map[pair]bool{}
	for _, c := range all {
		v := vals(c)
		for i := 0; i < 6; i++ {
			for j := i + 1; j < 6; j++ {
				need[pair{i, v[i], j, v[j]}] = true
			}
		}
	}
	var out []Cfg
	for len(need) > 0 {
		best, bestN := -1, 0
		for k, c := range all {
			v := vals(c)
			n := 0
			for i := 0; i < 6; i++ {
				for j := i + 1; j < 6; j++ {
					if need[pair{i, v[i], j, v[j]}] {
						n++
					}
				}
			}
			if n > bestN {
				best, bestN = k, n
			}
		}
		c := all[best]
		v := vals(c)
		for i := 0; i < 6; i++ {
			for j := i + 1; j < 6; j++ {
				delete(need, pair{i, v[i], j, v[j]})
			}
		}
		out = append(out, c)
	}
	return out
}

// Case is one evaluation: interface argument list × configuration in a source package.
type Case struct {
	Dir    string   // source package dir relative to the fixture root
	Ifaces []string // interface names (no mock-name suffix); for S-list may carry ":Name"
	Cfg    Cfg
	Scope  string
}

func (c *Case) args() []string {
	out := make([]string, len(c.Ifaces))
	for i, n := range c.Ifaces {
		out[i] = n
		if c.Cfg.Custom && !strings.Contains(n, ":") {
			out[i] = n + ":Custom" + n
		}
	}
	return out
}

func (c *Case) mockNames() []string {
	out := make([]string, len(c.Ifaces))
	for i, a := range c.args() {
		if parts := strings.SplitN(a, ":", 2); len(parts) == 2 {
			out[i] = parts[1]
		} else {
			out[i] = a + "Mock"
		}
	}
	return out
}

func (c *Case) ifaceNames() []string {
	out := make([]string, len(c.Ifaces))
	for i, a := range c.Ifaces {
		out[i] = strings.SplitN(a, ":", 2)[0]
	}
	return out
}

func (c *Case) pkgFlag(srcName string) string {
	switch c.Cfg.Pkg {
	case 1:
		return srcName
	case 2:
		// "any other package": alternately a fresh name and the base name of the source
		// directory (which differs from the source package's declared name in every fixture)
		if c.Cfg.Custom {
			return strings.ReplaceAll(filepath.Base(c.Dir), "-", "_")
		}
		if c.Cfg.Resets && !c.Cfg.Stub {
			return "foo" // also the name of packages that signatures mention (a/foo, b/foo, d/bar)
		}
		return "other"
	case 3:
		return srcName + "_test"
	}
	return ""
}

func (c *Case) req(fx *Fixture) GenReq {
	sp := fx.byDir[c.Dir]
	return GenReq{
		Dir: filepath.Join(fx.Root, c.Dir), Cwd: filepath.Join(fx.Root, c.Dir), PkgName: c.pkgFlag(sp.Name), Formatter: fmtNames[c.Cfg.Fmt],
		Stub: c.Cfg.Stub, SkipEnsure: c.Cfg.Skip, WithResets: c.Cfg.Resets, Args: c.args(), FailAfter: -1,
	}
}

func (c *Case) String() string {
	return fmt.Sprintf("%s %s [%s]", c.Dir, strings.Join(c.args(), " "), c.Cfg)
}

// Result bundles everything the oracles look at for one case.
type Result struct {
	Case *Case
	Resp GenResp
	Fx   *Fixture
	Src  *SrcInfo

	once sync.Once
	tc   *TC
}

// TC is the type-check of the emitted file in its destination package.
type TC struct {
	ParseErr error
	File     *ast.File
	Pkg      *types.Package // destination package as checked
	SrcPkg   *types.Package // the package object in which the interfaces live for this check
	Info     *types.Info
	Errs     []types.Error
}

func (r *Result) ok() bool { return r.Resp.Err == "" && r.Resp.Panic == "" && r.Resp.Died == "" }

// Typecheck parses the output and type-checks it in its destination package.
func (r *Result) Typecheck() *TC {
	r.once.Do(func() { r.tc = typecheckOutput(r.Fx, r.Src, r.Case.Cfg, r.Resp.Out) })
	return r.tc
}

func typecheckOutput(fx *Fixture, src *SrcInfo, cfg Cfg, out []byte) *TC {
	tc := &TC{}
	f, err := fx.parse("moq_out.go", out)
	if err != nil {
		tc.ParseErr = err
		return tc
	}
	tc.File = f
	tc.Info = newInfo()
	conf := types.Config{Error: func(err error) {
		if te, ok := err.(types.Error); ok {
			if !te.Soft || true {
				tc.Errs = append(tc.Errs, te)
			}
		}
	}}
	if cfg.samePkg() {
		conf.Importer = lockedImporter{fx: fx}
		files := append(append([]*ast.File{}, src.Files...), f)
		tc.Pkg, _ = conf.Check(src.Path, fx.fset, files, tc.Info)
		tc.SrcPkg = tc.Pkg
	} else {
		conf.Importer = lockedImporter{fx: fx, override: map[string]*types.Package{src.Path: src.Types}}
		path := src.Path + "/other"
		if cfg.Pkg == 3 {
			path = src.Path + "_test"
		}
		tc.Pkg, _ = conf.Check(path, fx.fset, []*ast.File{f}, tc.Info)
		tc.SrcPkg = src.Types
	}
	return tc
}

func hashBytes(b []byte) string {
	h := sha256.Sum256(b)
	return hex.EncodeToString(h[:8])
}

// diagClass normalises a type-checker message into a diagnostic class: identifiers that
// are case-specific (numbers in generated names) are kept, positions dropped.
func diagClass(e types.Error) string {
	msg := e.Msg
	if i := strings.Index(msg, "\n"); i >= 0 {
		msg = msg[:i]
	}
	return msg
}
