package main

import (
	"fmt"
	"go/types"
	"os"
)

// oracleC08: the method set of *Mock has Reset<M>Calls for every interface method and
// ResetCalls exactly when -with-resets is given (read from the type-checked output).
func oracleC08(r *Result) []*Violation {
	if !r.ok() {
		return nil
	}
	tc := r.Typecheck()
	if tc.ParseErr != nil || tc.Pkg == nil {
		return nil
	}
	var out []*Violation
	mocks := r.Case.mockNames()
	for i, in := range r.Case.ifaceNames() {
		mock := tc.mockNamed(mocks[i])
		_, it, _ := tc.ifaceType(in)
		if mock == nil || it == nil {
			continue
		}
		has := map[string]bool{}
		for j := 0; j < mock.NumMethods(); j++ {
			has[mock.Method(j).Name()] = true
		}
		want := r.Case.Cfg.Resets
		if has["ResetCalls"] != want {
			out = append(out, r.viol(fmt.Sprintf("reset-api: ResetCalls generated=%v with -with-resets=%v", has["ResetCalls"], want), ""))
		}
		for k := 0; k < it.NumMethods(); k++ {
			n := "Reset" + it.Method(k).Name() + "Calls"
			if has[n] != want {
				out = append(out, r.viol(fmt.Sprintf("reset-api: per-method reset generated=%v with -with-resets=%v", has[n], want), n))
			}
		}
		// signature: no parameters, no results. Only the names of the reset API are judged:
		// <M>Calls of an interface method M that itself starts with Reset (ResetGetCalls ->
		// ResetGetCallsCalls) is an accessor, not a reset method.
		api := map[string]bool{"ResetCalls": true}
		other := map[string]bool{}
		for k := 0; k < it.NumMethods(); k++ {
			api["Reset"+it.Method(k).Name()+"Calls"] = true
			other[it.Method(k).Name()] = true
			other[it.Method(k).Name()+"Calls"] = true
		}
		for j := 0; j < mock.NumMethods(); j++ {
			m := mock.Method(j)
			if api[m.Name()] && !other[m.Name()] && want {
				sig := m.Type().(*types.Signature)
				if sig.Params().Len() != 0 || sig.Results().Len() != 0 {
					out = append(out, r.viol("reset-api: reset method has parameters or results", m.Name()))
				}
			}
		}
	}
	return dedupViol(out)
}

// c08Static: S-cfg × all 192 configurations (static oracle) and the CLI parity leg.
func c08Static(rep *Report, tier string) {
	work := workDir()
	defer cleanup(work)
	pkgs := scopeCfg()
	pkgs = append(pkgs, scopeEmbed()...)
	fx := NewFixture(work+"/fx", dedupPkgs(pkgs))
	validateFixture(fx)
	cases := casesFor(fx.Pkgs, allCfgs(), "S-cfg")
	lp := scopeListPkg()
	fx.writePkg(lp)
	fx.Pkgs = append(fx.Pkgs, lp)
	for _, l := range [][]string{{"RA", "RB"}, {"RB", "RA"}, {"LZ", "RB"}, {"LA", "LZ", "RB"}} {
		for _, cfg := range []Cfg{{Resets: true}, {Resets: true, Stub: true, Pkg: 2}, {}} {
			cases = append(cases, &Case{Dir: lp.Dir, Ifaces: l, Cfg: cfg, Scope: "S-list"})
		}
	}
	prevEvals, _ := rep.Cov["evaluations"].(int)
	prevDistinct, _ := rep.Cov["distinct_nontrivial"].(int)
	runCases(fx, cases, rep, oracleC08)
	staticEvals, _ := rep.Cov["evaluations"].(int)
	rep.Set("static_leg_cases", staticEvals)
	rep.Set("evaluations", prevEvals+staticEvals)
	rep.Set("distinct_nontrivial", prevDistinct)
	var parity []*Case
	for _, c := range cases {
		if c.Cfg.Fmt == 0 && !c.Cfg.Custom && (tier == "thorough" || c.Cfg.Pkg%2 == 0) {
			parity = append(parity, c)
		}
	}
	cliParity(fx, parity, rep, "reset-api: ")
	fmt.Fprintf(os.Stderr, "c08 static leg: %d cases, parity %d\n", len(cases), len(parity))
}
