package main

// Shared check plumbing: violations, known-findings matching, replay files, evidence.

import (
	"encoding/json"
	"fmt"
	"os"
	"path/filepath"
	"regexp"
	"sort"
	"strings"
	"sync"
	"time"
)

// verifRoot is /verif; VCHECK_ROOT points background runs at a private snapshot of the
// framework (run.sh snapshot mode) so that /verif can be edited while they work.
var verifRoot = func() string {
	if r := os.Getenv("VCHECK_ROOT"); r != "" {
		return r
	}
	return "/verif"
}()

// Violation is one property violation on one explored case.
type Violation struct {
	Prop     string   `json:"property"`
	Engine   string   `json:"engine"`
	Diag     string   `json:"diagnostic"` // diagnostic class (normalised message / oracle name)
	Features []string `json:"features"`   // feature tags of the case
	Case     string   `json:"case"`       // human-readable case
	Detail   string   `json:"detail,omitempty"`
	Replay   any      `json:"replay,omitempty"` // engine-specific payload that re-executes the case
}

// Finding is one entry of /verif/KNOWN_FINDINGS.json.
type Finding struct {
	Status     string   `json:"status"` // "known" or "fixed"
	Properties []string `json:"properties"`
	ID         string   `json:"id"`
	Features   []string `json:"features"` // all must be present among the case's features
	AnyFeature []string `json:"any_feature,omitempty"`
	Diagnostic string   `json:"diagnostic"`             // regexp on the diagnostic class
	DetailRe   string   `json:"detail_match,omitempty"` // optional regexp on the violation detail (narrows to one call site)
	dre        *regexp.Regexp
	What       string `json:"what"`
	Witness    string `json:"witness,omitempty"`
	Commit     string `json:"commit,omitempty"`
	re         *regexp.Regexp
}

type findingsFile struct {
	Findings []*Finding `json:"findings"`
}

func loadFindings() []*Finding {
	b, err := os.ReadFile(filepath.Join(verifRoot, "KNOWN_FINDINGS.json"))
	if err != nil {
		return nil
	}
	var ff findingsFile
	if err := json.Unmarshal(b, &ff); err != nil {
		fatalf("KNOWN_FINDINGS.json: %v", err)
	}
	for _, f := range ff.Findings {
		re, err := regexp.Compile(f.Diagnostic)
		if err != nil {
			fatalf("KNOWN_FINDINGS.json: %s: %v", f.ID, err)
		}
		f.re = re
		if f.DetailRe != "" {
			if f.dre, err = regexp.Compile(f.DetailRe); err != nil {
				fatalf("KNOWN_FINDINGS.json: %s: %v", f.ID, err)
			}
		}
	}
	return ff.Findings
}

func (f *Finding) matches(v *Violation) bool {
	if f.Status != "known" || !f.forProp(v.Prop) {
		return false
	}
	has := map[string]bool{}
	for _, t := range v.Features {
		has[t] = true
	}
	for _, t := range f.Features {
		if !has[t] {
			return false
		}
	}
	if len(f.AnyFeature) > 0 {
		ok := false
		for _, t := range f.AnyFeature {
			if has[t] {
				ok = true
			}
		}
		if !ok {
			return false
		}
	}
	if f.dre != nil && !f.dre.MatchString(v.Detail) {
		return false
	}
	return f.re.MatchString(v.Diag)
}

func (f *Finding) forProp(p string) bool {
	for _, q := range f.Properties {
		if q == p {
			return true
		}
	}
	return false
}

func fatalf(format string, a ...any) {
	fmt.Fprintf(os.Stderr, "HARNESS ERROR: "+format+"\n", a...)
	os.Exit(2)
}

// repoRoot is /repo; VCHECK_REPO points isolated runs (seed detection in a scratch worktree)
// at another checkout.
var repoRoot = func() string {
	if r := os.Getenv("VCHECK_REPO"); r != "" {
		return r
	}
	return "/repo"
}()

// Report collects the outcome of one check run and writes evidence.
type Report struct {
	Prop   string
	Tier   string
	Seed   int64
	Level  string
	Engine string
	start  time.Time

	mu           sync.Mutex
	Cov          map[string]any
	Assume       []string
	violations   []*Violation
	known        map[string]int // finding id -> matches
	findings     []*Finding
	samples      []any
	knownWitness map[string]string
	exhaustive   bool
	capsHit      []string
}

func NewReport(prop, tier, level, engine string) *Report {
	seed := int64(0)
	fmt.Sscan(os.Getenv("VERIF_SEED"), &seed)
	return &Report{Prop: prop, Tier: tier, Seed: seed, Level: level, Engine: engine, start: time.Now(),
		Cov: map[string]any{}, known: map[string]int{}, findings: loadFindings(), exhaustive: true}
}

func (r *Report) Cap(what string) {
	r.mu.Lock()
	r.capsHit = append(r.capsHit, what)
	r.exhaustive = false
	r.mu.Unlock()
}

func (r *Report) Sample(s any) {
	r.mu.Lock()
	if len(r.samples) < 12 {
		r.samples = append(r.samples, s)
	}
	r.mu.Unlock()
}

func (r *Report) Add(n string, d int) {
	r.mu.Lock()
	if v, ok := r.Cov[n].(int); ok {
		r.Cov[n] = v + d
	} else {
		r.Cov[n] = d
	}
	r.mu.Unlock()
}

func (r *Report) Set(n string, v any) {
	r.mu.Lock()
	r.Cov[n] = v
	r.mu.Unlock()
}

// Violate records a violation (attributing it to a known finding when one matches).
// Returns true when it is a new (unlisted) violation.
func (r *Report) Violate(v *Violation) bool {
	v.Prop = r.Prop
	if v.Engine == "" {
		v.Engine = r.Engine
	}
	if rc := os.Getenv("VCHECK_REPLAY_CASE"); rc != "" {
		// replay mode: judge only the recorded case; known findings do not apply
		if v.Case != rc || v.Diag != os.Getenv("VCHECK_REPLAY_DIAG") {
			return false
		}
		r.mu.Lock()
		r.violations = append(r.violations, v)
		r.mu.Unlock()
		return true
	}
	r.mu.Lock()
	defer r.mu.Unlock()
	for _, f := range r.findings {
		if f.matches(v) {
			r.known[f.ID]++
			if r.knownWitness == nil {
				r.knownWitness = map[string]string{}
			}
			if _, ok := r.knownWitness[f.ID]; !ok {
				r.knownWitness[f.ID] = v.Case + " => " + v.Diag
			}
			return false
		}
	}
	r.violations = append(r.violations, v)
	return true
}

func (r *Report) NumViolations() int {
	r.mu.Lock()
	defer r.mu.Unlock()
	return len(r.violations)
}

// Finish writes evidence, prints KNOWN-FINDING / VIOLATION lines, and returns the exit code.
func (r *Report) Finish() int {
	r.mu.Lock()
	defer r.mu.Unlock()
	wall := time.Since(r.start).Seconds()
	// group violations by diagnostic class so the replay list stays readable
	sort.SliceStable(r.violations, func(i, j int) bool { return r.violations[i].Diag < r.violations[j].Diag })
	var ids []string
	for id := range r.known {
		ids = append(ids, id)
	}
	sort.Strings(ids)
	var stale []string
	knownOut := map[string]int{}
	for _, f := range r.findings {
		if !f.forProp(r.Prop) || f.Status != "known" {
			continue
		}
		if n := r.known[f.ID]; n > 0 {
			fmt.Printf("KNOWN-FINDING: property=%s %s: %s (matched %d explored cases)\n", r.Prop, f.ID, f.What, n)
			knownOut[f.ID] = n
		} else {
			stale = append(stale, f.ID)
		}
	}
	if dump := os.Getenv("VCHECK_DUMP"); dump != "" {
		if f, err := os.Create(dump); err == nil {
			enc := json.NewEncoder(f)
			for _, v := range r.violations {
				enc.Encode(map[string]any{"diag": v.Diag, "features": v.Features, "case": v.Case, "detail": v.Detail})
			}
			f.Close()
		}
	}
	code := 0
	byDiag := map[string]int{}
	printed := 0
	for _, v := range r.violations {
		byDiag[v.Diag]++
		if byDiag[v.Diag] > 3 || printed >= 40 {
			continue
		}
		printed++
		path := writeReplay(v)
		fmt.Printf("VIOLATION property=%s replay=%s\n", r.Prop, path)
		fmt.Printf("  diagnostic: %s\n  case: %s\n", v.Diag, v.Case)
		if v.Detail != "" {
			fmt.Printf("  detail: %s\n", firstLines(v.Detail, 12))
		}
		code = 1
	}
	if len(r.violations) > printed {
		fmt.Printf("  (%d further violating cases in %d diagnostic classes not printed)\n", len(r.violations)-printed, len(byDiag))
	}
	cov := r.Cov
	if cov["samples"] == nil {
		cov["samples"] = r.samples
	}
	cov["exhaustive"] = r.exhaustive
	cov["caps_hit"] = r.capsHit
	cov["known_findings_matched"] = knownOut
	cov["known_finding_first_witness"] = r.knownWitness
	cov["stale_findings"] = stale
	if r.Assume == nil {
		r.Assume = []string{}
	}
	ev := map[string]any{
		"property_id": r.Prop, "tier": r.Tier, "seed": r.Seed, "level": r.Level, "coverage": cov,
		"assumptions": r.Assume, "wall_s": float64(int(wall*100)) / 100, "violations": len(r.violations),
	}
	b, _ := json.MarshalIndent(ev, "", " ")
	os.MkdirAll(filepath.Join(verifRoot, "evidence"), 0o755)
	if os.Getenv("VCHECK_NO_EVIDENCE") != "" {
		// replay runs do not rewrite evidence
	} else if err := os.WriteFile(filepath.Join(verifRoot, "evidence", r.Prop+".json"), append(b, '\n'), 0o644); err != nil {
		fatalf("writing evidence: %v", err)
	}
	fmt.Printf("%s %s: evaluations=%v distinct_nontrivial=%v states=%v transitions=%v exhaustive=%v violations=%d known=%v wall=%.1fs\n",
		r.Prop, r.Tier, cov["evaluations"], cov["distinct_nontrivial"], cov["states"], cov["transitions"], r.exhaustive, len(r.violations), knownOut, wall)
	return code
}

func writeReplay(v *Violation) string {
	b, _ := json.MarshalIndent(v, "", " ")
	dir := filepath.Join(verifRoot, "replays", v.Prop)
	os.MkdirAll(dir, 0o755)
	name := hashBytes([]byte(v.Case+"|"+v.Diag)) + ".json"
	path := filepath.Join(dir, name)
	os.WriteFile(path, append(b, '\n'), 0o644)
	return path
}

var numRe = regexp.MustCompile(`\b([A-Za-z]+?)(\d+)(Mock|Func|Calls)?\b`)

// normDiag strips case-specific numbering from a diagnostic so that classes group.
func normDiag(s string) string {
	s = strings.ReplaceAll(s, modPath+"/", "")
	return s
}

func tierFromArgs(args []string) string {
	tier := os.Getenv("VERIF_TIER")
	for i, a := range args {
		if a == "--tier" && i+1 < len(args) {
			tier = args[i+1]
		}
	}
	if tier != "thorough" {
		tier = "quick"
	}
	return tier
}

func cleanup(dir string) {
	if os.Getenv("VCHECK_KEEP") == "" {
		os.RemoveAll(dir)
	}
}
