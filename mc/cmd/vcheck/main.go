package main

import (
	"encoding/json"
	"fmt"
	"os"
	"os/exec"
	"path/filepath"
	"runtime"
	"sort"
	"strings"
	"sync"
	"sync/atomic"
	"time"
)

func main() {
	if len(os.Args) < 2 {
		fmt.Fprintln(os.Stderr, "usage: vcheck check <id> [--tier quick|thorough] | replay <file> | worker")
		os.Exit(2)
	}
	switch os.Args[1] {
	case "worker":
		workerMain()
	case "check":
		if len(os.Args) < 3 {
			fatalf("check needs a property id")
		}
		os.Exit(runCheck(os.Args[2], tierFromArgs(os.Args[3:])))
	case "fixture": // debugging aid: write the fixture of a property's plan to a directory
		plan := planE1(os.Args[2], tierFromArgs(os.Args[4:]))
		fx := NewFixture(os.Args[3], dedupPkgs(plan.pkgs))
		fmt.Println(len(fx.Pkgs), "packages,", len(plan.cases), "cases")
	case "replay":
		if len(os.Args) < 3 {
			fatalf("replay needs a file")
		}
		os.Exit(runReplay(os.Args[2]))
	default:
		fatalf("unknown command %q", os.Args[1])
	}
}

func workDir() string {
	d := os.Getenv("VCHECK_WORK")
	if d == "" {
		var err error
		d, err = os.MkdirTemp("", "vcheck-")
		must(err)
	}
	return d
}

func moqBin() string {
	b := os.Getenv("VCHECK_MOQ")
	if b == "" {
		fatalf("VCHECK_MOQ (path of the moq binary built from /repo) is not set; run through /verif/run.sh")
	}
	return b
}

func nproc() int {
	if v := os.Getenv("VCHECK_WORKERS"); v != "" {
		n := 0
		fmt.Sscan(v, &n)
		if n > 0 {
			return n
		}
	}
	n := runtime.NumCPU()
	if n > 16 {
		n = 16
	}
	return n
}

func runCheck(prop, tier string) int {
	switch prop {
	case "C01", "C02", "C09", "C10", "C11", "C12", "C13":
		return runE1(prop, tier)
	case "C03", "C04", "C07", "C08":
		return runE3(prop, tier)
	case "C05", "C06":
		return runE4(prop, tier)
	case "C15":
		return runC15(tier)
	case "C17", "C18":
		return runE5(prop, tier)
	case "C16":
		return runC16(tier)
	case "C20":
		return runC20(tier)
	case "C14":
		return runC14(tier)
	case "C19":
		return runC19(tier)
	}
	fatalf("no check registered for %s", prop)
	return 2
}

// casesFor builds the product of all interfaces of pkgs with cfgs.
func casesFor(pkgs []*SrcPkg, cfgs []Cfg, scope string) []*Case {
	var out []*Case
	for _, p := range pkgs {
		for _, ic := range p.Ifaces {
			for _, c := range cfgs {
				if ic.InPlaceOnly && !c.samePkg() {
					continue
				}
				out = append(out, &Case{Dir: p.Dir, Ifaces: []string{ic.Name}, Cfg: c, Scope: ic.Scope})
			}
		}
	}
	return out
}

type e1Plan struct {
	pkgs   []*SrcPkg
	cases  []*Case
	oracle func(*Result) []*Violation
	rule   string
	bounds map[string]any
}

func (p *e1Plan) add(pkgs []*SrcPkg, cfgs []Cfg) {
	p.pkgs = append(p.pkgs, pkgs...)
	n := 0
	scope := ""
	for _, pk := range pkgs {
		n += len(pk.Ifaces)
		if len(pk.Ifaces) > 0 {
			scope = pk.Ifaces[0].Scope
		}
	}
	cs := casesFor(pkgs, cfgs, scope)
	p.cases = append(p.cases, cs...)
	if p.bounds == nil {
		p.bounds = map[string]any{}
	}
	p.bounds[scope] = map[string]int{"interfaces": n, "configurations": len(cfgs), "cases": len(cs)}
}

// cfg24: every (skip-ensure, destination, formatter) triple, with the remaining three
// booleans rotated so that every pair of flag values occurs.
func cfg24() []Cfg {
	var out []Cfg
	i := 0
	for _, skip := range []bool{false, true} {
		for pkg := 0; pkg < 4; pkg++ {
			for f := 0; f < 3; f++ {
				out = append(out, Cfg{Stub: i&1 == 1, Skip: skip, Resets: (i>>1)&1 == 1, Pkg: pkg, Fmt: f, Custom: (i/3+i)%2 == 1})
				i++
			}
		}
	}
	// make sure all pairs are present by adding greedy pairwise configurations
	seen := map[Cfg]bool{}
	for _, c := range out {
		seen[c] = true
	}
	for _, c := range pairwiseCfgs() {
		if !seen[c] {
			out = append(out, c)
			seen[c] = true
		}
	}
	return out
}

// cfgNames: the configurations that matter for naming scopes (stub × destination).
func cfgNames() []Cfg {
	return []Cfg{
		{Stub: false, Pkg: 0}, {Stub: true, Pkg: 2, Resets: true}, {Stub: true, Pkg: 0, Skip: true, Fmt: 2}, {Stub: false, Pkg: 3, Fmt: 1, Custom: true},
	}
}

func planE1(prop, tier string) *e1Plan {
	p := &e1Plan{}
	thorough := tier == "thorough"
	K, K12 := cfg24(), pairwiseCfgs()
	if thorough {
		K, K12 = allCfgs(), cfg24()
	}
	// configuration subsets
	K6 := []Cfg{ // the four destinations and all three formatters, booleans rotated
		{Pkg: 0}, {Pkg: 1, Stub: true, Resets: true, Fmt: 2}, {Pkg: 2, Skip: true, Fmt: 0, Custom: true}, {Pkg: 3, Fmt: 1, Stub: true},
		{Pkg: 2, Resets: true, Fmt: 2}, {Pkg: 3, Skip: true, Stub: true, Resets: true, Custom: true},
	}
	K2 := []Cfg{{Pkg: 0, Stub: true}, {Pkg: 2, Resets: true, Custom: true}}
	KN := cfgNames()
	if thorough {
		// thorough: S-cfg, S-embed, S-srcsync under all 192 configurations; the large scopes under the
		// 24+ point set (every skip-ensure x destination x formatter triple, all pairs)
		K2 = K6
		K6, KN = cfg24(), K6
	}
	typeScope := func(depth int) (pr, v []*SrcPkg) { return scopeType(depth, "PR"), scopeType(depth, "V") }
	switch prop {
	case "C01":
		p.oracle = typeErrors
		p.add(scopeCfg(), allCfgs())
		pr, v := typeScope(1)
		p.add(pr, K6)
		p.add(v, K2)
		p.add(scopeEmbed(), K)
		p.add(scopeSrcSync(), K)
		p.add(scopeGen(), K12)
		p.add(scopeName2("pairs"), K2)
		p.add(scopeName2("rest"), KN)
		p.add(scopeTyPair(), K2)
		p.add(scopeCross(), K2)
		if thorough {
			pr, v = typeScope(2)
			p.add(pr, K2)
			p.add(v, K2[:2])
			p.add(scopeName3(), cfgNames())
			p.add(scopeImp(3, false), K2[:1])
			p.add(scopeImp(2, true), K2)
		} else {
			p.add(scopeImp(2, true), K2)
		}
		p.rule = "every interface of the listed scopes × the listed configurations, generated by the real moq.New/Mock and type-checked (go/types) in its destination package; distinct = distinct emitted files (sha256) for interfaces with ≥1 method"
	case "C02":
		p.oracle = oracleC02
		p.add(scopeCfg(), allCfgs())
		pr, v := typeScope(1)
		p.add(pr, K6)
		p.add(v, K6)
		p.add(scopeEmbed(), K)
		p.add(scopeGen(), K12)
		p.add(scopeTyPair(), []Cfg{K2[0], K2[1], {Skip: true, Pkg: 2}})
		if thorough {
			pr, v = typeScope(2)
			p.add(pr, K2)
			p.add(v, K2[:2])
		}
		lp := scopeListPkg()
		p.pkgs = append(p.pkgs, lp)
		for _, l := range scopeListArgs() {
			for _, c := range K2 {
				p.cases = append(p.cases, &Case{Dir: lp.Dir, Ifaces: l, Cfg: c, Scope: "S-list"})
			}
			p.cases = append(p.cases, &Case{Dir: lp.Dir, Ifaces: l, Cfg: Cfg{Skip: true, Pkg: 2}, Scope: "S-list"})
		}
		p.rule = "S-cfg×192, S-type1 (parameter, result and variadic position of every type of T_1), S-embed, S-gen × configuration subsets; oracle: go/types assignability, per-method types.Identical, exactly one identical <M>Func field; generic interfaces at every accepted candidate instantiation"
	case "C09":
		p.oracle = oracleC09
		p.add(scopeGen(), K)
		lp := scopeListPkg()
		p.pkgs = append(p.pkgs, lp)
		for _, l := range scopeListArgs() {
			if strings.Contains(strings.Join(l, " "), "LK") || strings.Contains(strings.Join(l, " "), "LE") || strings.Contains(strings.Join(l, " "), "LM") {
				for _, c := range K2 {
					p.cases = append(p.cases, &Case{Dir: lp.Dir, Ifaces: l, Cfg: c, Scope: "S-list"})
				}
			}
		}
		p.rule = "S-gen (spellings × constraints × use sites, multi-parameter, embedding, instantiated aliases) × K; oracle: type parameter count/order, canonical constraint equality, acceptance equivalence and conformance over candidate type-argument lists^k, call-record field types, zero type errors"
	case "C10":
		p.oracle = oracleC10
		var cf []Cfg
		for _, c := range allCfgs() {
			if !thorough && (c.Stub != c.Resets || (c.Fmt == 1 && c.Stub)) {
				continue
			}
			cf = append(cf, c)
		}
		p.add(scopeCfg(), cf)
		pr, _ := typeScope(1)
		p.add(pr, K6)
		p.add(scopeGen(), K12)
		p.add(scopeEmbed(), K)
		p.add(scopeSrcSync(), K)
		p.add(scopeTyPair(), K2)
		p.rule = "S-cfg × (4 destinations × skip-ensure × formatters …), S-type1/S-gen/S-embed × configuration subsets; oracle: self-import absent in same-package modes, source import present iff needed (independent go/types walk) in other modes, zero type errors in the destination package"
	case "C11":
		p.oracle = oracleC11
		p.add(scopeCfg(), K)
		p.add(scopeSrcSync(), K)
		p.add(scopeEmbed(), KN)
		if thorough {
			p.add(scopeImp(3, false), K2[:1])
			p.add(scopeImp(2, true), K2)
		} else {
			p.add(scopeImp(2, true), K2)
		}
		mp, mc := scopeMirror()
		p.pkgs = append(p.pkgs, mp...)
		p.cases = append(p.cases, mc...)
		p.rule = "S-imp: all ordered selections of ≤k packages from the 23-package pool × source alias modes, one source file per import; oracle: import specs vs. go/types PkgName uses (exact, unique, canonical, valid identifiers, alias kept, sync iff methods), zero type errors"
	case "C12":
		p.oracle = oracleC12
		p.add(scopeName2("pairs"), KN)
		p.add(scopeName2("rest"), KN)
		p.add(scopeGen(), K2)
		p.add(scopeCross(), KN)
		if thorough {
			p.add(scopeName3(), cfgNames())
		}
		p.rule = "S-name2: all ordered pairs of the 44-name alphabet over interacting type patterns + result-name pairs (+ S-name3 triples in thorough) × {stub,destination} configurations; oracle: identifier validity/distinctness from the AST and zero type errors (captures/shadowing surface as resolution errors)"
	case "C13":
		pkgs, expect := scopeC13()
		p.oracle = oracleC13(expect)
		n := 0
		for _, ms := range expect {
			n += len(ms)
		}
		p.bounds = map[string]any{"parameter_names_and_types_checked_per_configuration": n}
		p.add(pkgs, K6)
		p.rule = "every golint initialism in every case pattern (all 2^len for len ≤ 5), affixed variants, ordinary names incl. digits, underscores and non-ASCII letters, and the documented unnamed-parameter types, one parameter per method; oracle: independent copy of the naming rule vs. parameter names of <M>Func / the method and the field name of the <M>Calls() element struct, read from the type-checked output"
	case "C19":
		p.oracle = oracleC19
		p.add(scopeCfg(), cfg24())
		pr, v := typeScope(1)
		p.add(pr, K2)
		p.add(v, K2[:1])
		p.add(scopeGen(), K2)
		p.add(scopeEmbed(), K2)
		p.add(scopeName2("rest"), K2[:1])
		if thorough {
			p.add(scopeImp(3, false), K2[:1])
			p.add(scopeImp(2, true), K2[:1])
		} else {
			p.add(scopeImp(2, true), K2)
		}
		mp, mc := scopeMirror()
		p.pkgs = append(p.pkgs, mp...)
		p.cases = append(p.cases, mc...)
		p.rule = "every case of the generator-space scopes under the worker watchdog and a 64 MB stack limit; oracle: the generator returns output or an error naming the type or stage; a worker death (stack exhaustion, fatal error), an escaped panic or a watchdog expiry is a violation"
	default:
		fatalf("planE1: %s", prop)
	}
	// small (directed) scopes first: if an overloaded machine makes the run hit its internal
	// deadline, what is cut off is the tail of the largest product scope
	size := map[string]int{}
	for _, c := range p.cases {
		size[c.Scope]++
	}
	sort.SliceStable(p.cases, func(i, j int) bool { return size[p.cases[i].Scope] < size[p.cases[j].Scope] })
	return p
}

func runE1(prop, tier string) int {
	rep := NewReport(prop, tier, "model_checking", "E1")
	plan := planE1(prop, tier)
	work := workDir()
	defer cleanup(work)
	t0 := time.Now()
	fx := NewFixture(work+"/fx", dedupPkgs(plan.pkgs))
	fmt.Fprintf(os.Stderr, "fixture: %d source packages, %d cases (%.1fs)\n", len(fx.Pkgs), len(plan.cases), time.Since(t0).Seconds())
	validateFixture(fx)
	// oracle self-validation (C01): a fixed sample of verdicts is cross-checked with the go command
	type sample struct {
		r     *Result
		clean bool
	}
	var samples []sample
	var smu sync.Mutex
	seenDir := map[string]int{}
	results := runCases(fx, plan.cases, rep, func(r *Result) []*Violation {
		vs := plan.oracle(r)
		if prop == "C01" && r.ok() && r.Case.Cfg.Pkg == 0 && len(r.Case.Ifaces) == 1 {
			smu.Lock()
			if seenDir[r.Case.Dir] < 1 && (len(vs) > 0 || len(samples) < 60) && len(samples) < 90 {
				seenDir[r.Case.Dir]++
				samples = append(samples, sample{r, len(vs) == 0})
			}
			smu.Unlock()
		}
		return vs
	})
	_ = results
	if prop == "C01" && len(samples) > 0 {
		agree, disagree := 0, 0
		parallelDo(len(samples), nproc(), func(i int) {
			s := samples[i]
			dst := filepath.Join(fx.Root, "s", fmt.Sprintf("xcheck_%d", i))
			srcDir := filepath.Join(fx.Root, s.r.Case.Dir)
			ents, _ := os.ReadDir(srcDir)
			for _, e := range ents {
				if b, err := os.ReadFile(filepath.Join(srcDir, e.Name())); err == nil && !e.IsDir() {
					writeFile(filepath.Join(dst, e.Name()), string(b))
				}
			}
			writeFile(filepath.Join(dst, "zz_moq.go"), string(s.r.Resp.Out))
			cmd := exec.Command(goRoot+"/bin/go", "build", "./s/"+filepath.Base(dst))
			cmd.Dir, cmd.Env = fx.Root, fx.Env
			out, err := cmd.CombinedOutput()
			smu.Lock()
			defer smu.Unlock()
			if (err == nil) == s.clean {
				agree++
			} else {
				disagree++
				fmt.Fprintf(os.Stderr, "oracle cross-check disagreement for %s: go/types clean=%v, go build err=%v\n%s\n", s.r.Case, s.clean, err, firstLines(string(out), 6))
			}
		})
		rep.Set("oracle_crosschecks", map[string]int{"go build agrees with go/types": agree, "disagrees": disagree})
		if disagree > 0 {
			fatalf("the go/types oracle and the go command disagree on %d of %d sampled outputs", disagree, len(samples))
		}
	}
	switch prop {
	case "C11":
		depth := 3
		if tier == "thorough" {
			depth = 4
		}
		e2Imports(fx, work, rep, prop, depth)
		plan.rule += fmt.Sprintf("; plus E2: breadth-first search over all AddImport sequences up to depth %d on the real registry (28 path shapes incl. vendored, nested-vendored, other-domain, keyword- and digit-leading, sanitise-equal; 5 source-alias maps) with invariants evaluated in every state (qualifiers unique and valid identifiers, no vendor prefix, alias kept); predictions of on-disk sequences replayed through the real generator", depth)
	case "C12":
		depth := 2
		if tier == "thorough" {
			depth = 3
		}
		e2Vars(work, rep, prop, depth)
		plan.rule += fmt.Sprintf("; plus E2: every AddVar sequence up to depth %d (12 names x 10 types) in one method scope of the real registry, invariants on names after every step", depth)
	}
	rep.Set("rule", plan.rule)
	rep.Set("bounds", plan.bounds)
	rep.Assume = []string{
		"go/types (the compiler's checker) is the judge of validity; a fixed sample is cross-checked with go vet",
		"inputs outside the stated alphabets are not covered",
	}
	return rep.Finish()
}

func dedupPkgs(in []*SrcPkg) []*SrcPkg {
	seen := map[string]bool{}
	var out []*SrcPkg
	for _, p := range in {
		if !seen[p.Dir] {
			seen[p.Dir] = true
			out = append(out, p)
		}
	}
	return out
}

type runStats struct {
	evals, rejected, crashed int64
}

// runCases generates every case on the worker pool and applies oracle to each result.
func runCases(fx *Fixture, cases []*Case, rep *Report, oracle func(*Result) []*Violation) *runStats {
	pool := NewPool(nproc(), fx.Env)
	reqs := make([]GenReq, len(cases))
	seed := int(rep.Seed)
	order := make([]int, len(cases))
	for i := range order {
		order[i] = i
	}
	if seed != 0 && len(cases) > 0 { // rotation only: the set of cases is seed-independent
		rot := ((seed % len(cases)) + len(cases)) % len(cases)
		order = append(order[rot:], order[:rot]...)
	}
	for k, i := range order {
		reqs[k] = cases[i].req(fx)
	}
	st := &runStats{}
	if lim := os.Getenv("VCHECK_LIMIT"); lim != "" {
		n := 0
		fmt.Sscan(lim, &n)
		if n > 0 && n < len(reqs) {
			step := len(reqs) / n
			var r2 []GenReq
			var o2 []int
			for k := 0; k < len(reqs); k += step {
				r2, o2 = append(r2, reqs[k]), append(o2, order[k])
			}
			reqs, order = r2, o2
			rep.Cap("VCHECK_LIMIT debugging cap")
		}
	}
	progress := time.NewTicker(10 * time.Second)
	defer progress.Stop()
	go func() {
		for range progress.C {
			fmt.Fprintf(os.Stderr, "  progress: %d/%d cases, %d violations\n", atomic.LoadInt64(&st.evals), len(reqs), rep.NumViolations())
		}
	}()
	hashes := sync.Map{}
	var distinct int64
	var mu sync.Mutex
	scopeSeen := map[string]bool{}
	rejectClasses := map[string]int{}
	deadline := time.Now().Add(e1Deadline(rep.Tier))
	var capped int32
	pool.Run(reqs, func(k int, resp GenResp) {
		if time.Now().After(deadline) {
			atomic.StoreInt32(&capped, 1)
			return
		}
		c := cases[order[k]]
		atomic.AddInt64(&st.evals, 1)
		r := &Result{Case: c, Resp: resp, Fx: fx, Src: fx.Src(c.Dir)}
		if r.Src.Err != nil {
			fatalf("fixture package %s does not type-check: %v", c.Dir, r.Src.Err)
		}
		if resp.Died != "" || resp.Panic != "" {
			atomic.AddInt64(&st.crashed, 1)
		} else if resp.Err != "" {
			atomic.AddInt64(&st.rejected, 1)
			mu.Lock()
			rejectClasses[rejectClass(resp.Err)]++
			mu.Unlock()
		} else {
			nontrivial := false
			for _, in := range c.ifaceNames() {
				if o := r.Src.Types.Scope().Lookup(in); o != nil {
					if it, ok := o.Type().Underlying().(interface{ NumMethods() int }); ok && it.NumMethods() > 0 {
						nontrivial = true
					}
				}
			}
			if nontrivial {
				if _, dup := hashes.LoadOrStore(hashBytes(resp.Out), true); !dup {
					atomic.AddInt64(&distinct, 1)
				}
			}
		}
		mu.Lock()
		first := !scopeSeen[c.Scope]
		scopeSeen[c.Scope] = true
		mu.Unlock()
		if first {
			rep.Sample(map[string]any{"scope": c.Scope, "interface": r.ifaceSrc(), "args": c.args(), "config": c.Cfg.String(),
				"accepted": r.ok(), "output_sha": hashBytes(resp.Out), "output_bytes": len(resp.Out)})
		}
		if os.Getenv("VCHECK_NOORACLE") != "" {
			return
		}
		for _, v := range oracle(r) {
			rep.Violate(v)
		}
	})
	if capped == 1 {
		rep.Cap(fmt.Sprintf("internal deadline reached after %d of %d cases", st.evals, len(cases)))
	}
	rep.Set("evaluations", int(st.evals))
	rep.Set("distinct_nontrivial", int(distinct))
	rep.Set("rejected_by_moq", int(st.rejected))
	rep.Set("crashed_or_hung", int(st.crashed))
	rep.Set("reject_classes", rejectClasses)
	rep.Set("worker_deaths", int(pool.Deaths))
	return st
}

func e1Deadline(tier string) time.Duration {
	if tier == "thorough" {
		return 100 * time.Minute
	}
	return 12 * time.Minute
}

func rejectClass(err string) string {
	err = firstLines(err, 1)
	for _, p := range []string{"interface not found", "is not an interface", "go/format", "goimports", "couldn't load source package"} {
		if strings.Contains(err, p) {
			return p
		}
	}
	if len(err) > 60 {
		err = err[:60]
	}
	return err
}

func sortedCounts(m map[string]int) []string {
	var ks []string
	for k, v := range m {
		ks = append(ks, fmt.Sprintf("%6d %s", v, k))
	}
	sort.Sort(sort.Reverse(sort.StringSlice(ks)))
	return ks
}

// runReplay re-executes one recorded violation without the explorer.
func runReplay(path string) int {
	b, err := os.ReadFile(path)
	if err != nil {
		fatalf("%v", err)
	}
	var v struct {
		Prop   string          `json:"property"`
		Engine string          `json:"engine"`
		Diag   string          `json:"diagnostic"`
		Replay json.RawMessage `json:"replay"`
	}
	if err := json.Unmarshal(b, &v); err != nil {
		fatalf("%s: %v", path, err)
	}
	var head struct {
		Engine string `json:"engine"`
	}
	json.Unmarshal(v.Replay, &head)
	switch head.Engine {
	case "E1":
		return replayE1(v.Prop, v.Diag, v.Replay, path)
	}
	if fn, ok := replayers[head.Engine]; ok {
		return fn(v.Prop, v.Diag, v.Replay, path)
	}
	// Engines E2–E5: the recorded case (history / schedule / fault / operation sequence) is
	// re-executed by running the property's check restricted to that case; the explorer's
	// other cases are still enumerated but only this one is judged.
	var full struct {
		Case string `json:"case"`
	}
	json.Unmarshal(b, &full)
	os.Setenv("VCHECK_REPLAY_CASE", full.Case)
	os.Setenv("VCHECK_REPLAY_DIAG", v.Diag)
	os.Setenv("VCHECK_NO_EVIDENCE", "1")
	code := runCheck(v.Prop, "quick")
	if code == 0 {
		fmt.Println("  not reproduced on the current tree")
	}
	return code
}

var replayers = map[string]func(prop, diag string, payload json.RawMessage, path string) int{}

func replayE1(prop, diag string, payload json.RawMessage, path string) int {
	var rp E1Replay
	if err := json.Unmarshal(payload, &rp); err != nil {
		fatalf("%v", err)
	}
	work := workDir()
	defer cleanup(work)
	sp := &SrcPkg{Dir: rp.PkgDir, Name: "src"}
	fx := NewFixture(work+"/fx", nil)
	fx.byDir[rp.PkgDir] = sp
	for name, content := range rp.Files {
		writeFile(filepath.Join(fx.Root, rp.PkgDir, name), content)
	}
	c := &Case{Dir: rp.PkgDir, Ifaces: rp.Ifaces, Cfg: rp.Cfg, Scope: "replay"}
	pool := NewPool(1, fx.Env)
	resp := pool.Fresh(c.req(fx))
	r := &Result{Case: c, Resp: resp, Fx: fx, Src: fx.Src(rp.PkgDir)}
	fmt.Printf("replay %s: accepted=%v err=%q died=%q\n", path, r.ok(), resp.Err, firstLines(resp.Died, 2))
	oracles := map[string]func(*Result) []*Violation{"C01": typeErrors, "C02": oracleC02, "C09": oracleC09, "C10": oracleC10, "C11": oracleC11, "C12": oracleC12, "C19": oracleC19}
	o := oracles[prop]
	if o == nil {
		o = typeErrors
	}
	vs := o(r)
	for _, v := range vs {
		fmt.Printf("  reproduced: %s\n    %s\n", v.Diag, firstLines(v.Detail, 6))
	}
	if len(vs) > 0 {
		fmt.Printf("VIOLATION property=%s replay=%s\n", prop, path)
		return 1
	}
	fmt.Println("  not reproduced on the current tree")
	return 0
}

// validateFixture type-checks every generated source package with the oracle's own
// checker before anything is generated: a broken fixture is a harness error.
func validateFixture(fx *Fixture) {
	var wg sync.WaitGroup
	ch := make(chan *SrcPkg, 64)
	var mu sync.Mutex
	var errs []string
	for i := 0; i < nproc(); i++ {
		wg.Add(1)
		go func() {
			defer wg.Done()
			for p := range ch {
				if si := fx.Src(p.Dir); si.Err != nil {
					mu.Lock()
					errs = append(errs, fmt.Sprintf("%s: %v", p.Dir, si.Err))
					mu.Unlock()
				}
			}
		}()
	}
	for _, p := range fx.Pkgs {
		ch <- p
	}
	close(ch)
	wg.Wait()
	if len(errs) > 0 {
		sort.Strings(errs)
		if len(errs) > 15 {
			errs = errs[:15]
		}
		fatalf("fixture packages do not type-check:\n%s", strings.Join(errs, "\n"))
	}
}

func runC14(tier string) int {
	rep := NewReport("C14", tier, "model_checking", "E1+E2")
	{
		work := workDir()
		fx := NewFixture(work+"/fx", nil)
		if tier == "thorough" {
			// depth 3 with 3 deviations is ~10^8 runs of the instrumented registry (more than an
			// hour): the thorough tier goes one step further in each dimension separately
			e2Order(fx, work, rep, 3, 2)
			e2Order(fx, work, rep, 2, 3)
			rep.Set("order_leg_bounds", "sequences of depth 3 with <=2 non-default map orders, and depth 2 with <=3")
		} else {
			e2Order(fx, work, rep, 2, 2)
			rep.Set("order_leg_bounds", "sequences of depth 2 with <=2 non-default map orders")
		}
		cleanup(work)
	}
	runC14E1(rep, tier)
	rep.Set("rule", "repetition leg: every case generated 3x in one process with fresh Mockers and once in another process, bytes compared (samples the runtime's map order); order leg (E2): see states/transitions")
	if _, ok := rep.Cov["distinct_nontrivial"]; !ok {
		rep.Set("distinct_nontrivial", rep.Cov["repetition_leg_distinct_outputs"])
	}
	return rep.Finish()
}

func runC19(tier string) int {
	rep := NewReport("C19", tier, "model_checking", "E1+E2+E5")
	plan := planE1("C19", tier)
	work := workDir()
	defer cleanup(work)
	fx := NewFixture(work+"/fx", dedupPkgs(plan.pkgs))
	validateFixture(fx)
	runCases(fx, plan.cases, rep, plan.oracle)
	depth := 3
	if tier == "thorough" {
		depth = 4
	}
	e2Imports(nil, work, rep, "C19", depth)
	e2Vars(work, rep, "C19", 2)
	e5Alphabet(fx, work, rep, "C19", tier == "thorough")
	rep.Set("rule", plan.rule+"; plus (E2) every AddImport sequence up to the stated depth over a 28-shape adversarial path alphabet x 5 source-alias maps on the real registry with crash attribution, and (E5) the CLI failure alphabet (13 kinds of bad argument at every position, unloadable packages, unwritable destinations): exit status 1 with a diagnostic naming the type or stage, never a runtime panic")
	rep.Set("bounds", plan.bounds)
	rep.Set("e2_import_depth", depth)
	return rep.Finish()
}
