package main

// E3 seqhist: compiles mocks that the moq under test has just generated and drives them
// through all operation sequences up to a depth (runtime: /verif/rt/e3rt).

import (
	"bytes"
	"encoding/json"
	"fmt"
	"os"
	"os/exec"
	"path/filepath"
	"sort"
	"strings"
	"sync"
	"time"
)

const dynFamily = `
// a parameter spelled like the package that only the results mention (first in the argument
// list, so that nothing has imported that package before)
type Res interface {
	Resolve(one string, n int) (*@{~/q/one}.T, error)
}

type Two interface {
	M(a int, b string) (int, error)
	N(xs ...int)
}

type Void interface {
	P()
	Q(x Loc)
}

type Gen[T any, S any] interface {
	Get(T) (S, error)
	Put(T, S)
}

type Named interface {
	R(ctx @{context}.Context) (n int, err error)
}

type Wide interface {
	A(x int)
	B(y string) error
	C(p *Loc, m map[string]int, f func()) (*Loc, []int)
}

type Emb interface {
	LocI
	Two
}

type Dep interface {
	D(t @{~/a/foo}.T, rest ...*@{~/b/foo}.T) (@{~/a/foo}.T, *@{~/b/foo}.T)
}

type Logger interface {
	Errorf(ctx @{context}.Context, format string, args ...any) error
	Logf(format string, args ...interface{})
	Tags(a, b, c string, rest ...string)
	Logw(aVeryLongParameterNameNumberOne string, aVeryLongParameterNameNumberTwo string, aVeryLongParameterNameNumberThree string, keysAndValues ...any)
}

// method names that an "exported name" helper would rewrite
type Init interface {
	Id() int
	Url(u string)
	Http2(x int) error
}

// parameters spelled like identifiers the generated body needs
type Weird interface {
	W(panic func(v any), nil int, append string) (error string, mock int)
	OnPanic(Panic, Nil)
}
`

type dynBuild struct {
	Stub, Resets bool
	Dir          string
}

var dynIfaces = []string{"Two", "Void", "Res", "Gen", "Named", "Wide", "Emb", "Dep", "Init", "Logger", "Weird"}

func dynPkg(dir string) *SrcPkg {
	sp := &SrcPkg{Dir: dir, Name: "dyn", Files: []SrcFile{{Name: "dyn.go", Decls: dynFamily}}}
	for _, n := range dynIfaces {
		sp.Ifaces = append(sp.Ifaces, IfaceCase{Name: n, Scope: "dyn"})
	}
	return sp
}

// e3Spec is one entry of the generated registry.
type e3Spec struct {
	Label, Alias, PkgPath, Expr, MockType, Iface, Family string
	Stub, Resets                                         bool
}

type e3Report struct {
	Mocks       int            `json:"mocks"`
	Histories   int64          `json:"histories"`
	Ops         int64          `json:"ops"`
	States      int            `json:"states"`
	MaxDepth    int            `json:"max_depth"`
	Violations  []e3Violation  `json:"violations"`
	PerMock     map[string]int `json:"per_mock_histories"`
	Samples     [][]string     `json:"samples"`
	NilPanics   int64          `json:"nil_panics_checked"`
	Callbacks   int64          `json:"callbacks_checked"`
	SnapsStable int64          `json:"snapshot_stability_checks"`
	Hung        bool           `json:"hung"`
}

type e3Violation struct {
	Prop    string   `json:"prop"`
	Oracle  string   `json:"oracle"`
	Mock    string   `json:"mock"`
	History []string `json:"history"`
	Detail  string   `json:"detail"`
}

// addRtModule makes the fixture module depend on the runtime module /verif/rt.
func addRtModule(fx *Fixture) {
	writeFile(filepath.Join(fx.Root, "go.mod"), "module "+modPath+"\n\ngo 1.24\n\nrequire verif/rt v0.0.0\n\nreplace verif/rt => "+verifRoot+"/rt\n")
}

// e3Prepare generates every mock (dynamic family under 4 builds + all-shapes leg),
// writes them next to their interfaces and returns the registry.
func e3Prepare(fx *Fixture, rep *Report, shapePkgs []*SrcPkg, builds []dynBuild) []e3Spec {
	var specs []e3Spec
	pool := NewPool(nproc(), fx.Env)
	// dynamic family: one generation per build, all interfaces at once
	for _, b := range builds {
		c := &Case{Dir: b.Dir, Ifaces: append([]string{}, dynIfaces...), Cfg: Cfg{Stub: b.Stub, Resets: b.Resets}, Scope: "dyn"}
		if b.Stub && b.Resets {
			c.Ifaces[0] = "Two:CustomTwo" // custom mock name: the nil-func panic must name it
		}
		resp := pool.Fresh(c.req(fx))
		if resp.Err != "" || resp.Died != "" || resp.Panic != "" {
			fatalf("moq failed on the dynamic family (%s): %s%s%s", b.Dir, resp.Err, resp.Died, resp.Panic)
		}
		if tc := (&Result{Case: c, Resp: resp, Fx: fx, Src: fx.Src(b.Dir)}).Typecheck(); tc.ParseErr != nil || len(tc.Errs) > 0 {
			// mocks that do not compile cannot be driven: the tree under test breaks the
			// precondition of this property (and C01); reported, not a harness error
			detail := fmt.Sprint(tc.ParseErr)
			for _, e := range tc.Errs {
				detail += "\n" + e.Error()
			}
			rep.Violate(&Violation{Diag: "precondition: generated mocks of the dynamic family do not type-check", Case: c.String(), Detail: firstLines(detail, 12), Features: []string{"e3:precondition"}})
			return nil
		}
		must(os.WriteFile(filepath.Join(fx.Root, b.Dir, "zz_moq.go"), resp.Out, 0o644))
		alias := strings.ReplaceAll(filepath.Base(b.Dir), "-", "_")
		for i, n := range dynIfaces {
			mock := c.mockNames()[i]
			expr := "&" + alias + "." + mock + "{}"
			if n == "Gen" {
				expr = "&" + alias + "." + mock + "[int, string]{}"
			}
			specs = append(specs, e3Spec{Label: filepath.Base(b.Dir) + "." + mock, Alias: alias, PkgPath: modPath + "/" + b.Dir, Expr: expr,
				MockType: mock, Iface: n, Family: "dyn", Stub: b.Stub, Resets: b.Resets})
		}
	}
	// all-shapes leg: every interface separately, two flag sets, distinct mock names
	type job struct {
		c      *Case
		suffix string
		alias  string
	}
	var jobs []job
	var reqs []GenReq
	for pi, p := range shapePkgs {
		for _, ic := range p.Ifaces {
			for k, cfg := range []Cfg{{Resets: true}, {Stub: true}} {
				suffix := []string{"MockR", "MockS"}[k]
				c := &Case{Dir: p.Dir, Ifaces: []string{ic.Name + ":" + ic.Name + suffix}, Cfg: cfg, Scope: ic.Scope}
				jobs = append(jobs, job{c, suffix, fmt.Sprintf("p%d", pi)})
				reqs = append(reqs, c.req(fx))
			}
		}
	}
	resps := make([]GenResp, len(reqs))
	pool.Run(reqs, func(i int, r GenResp) { resps[i] = r })
	var mu sync.Mutex
	var wg sync.WaitGroup
	sem := make(chan bool, nproc())
	skipped := 0
	for i := range jobs {
		i := i
		wg.Add(1)
		sem <- true
		go func() {
			defer func() { <-sem; wg.Done() }()
			j, resp := jobs[i], resps[i]
			r := &Result{Case: j.c, Resp: resp, Fx: fx, Src: fx.Src(j.c.Dir)}
			if !r.ok() {
				mu.Lock()
				skipped++
				mu.Unlock()
				return
			}
			tc := r.Typecheck()
			_, it, tps := tc.ifaceType(j.c.ifaceNames()[0])
			if tc.ParseErr != nil || len(tc.Errs) > 0 || it == nil || (tps != nil && tps.Len() > 0) {
				mu.Lock()
				skipped++ // does not compile (C01's business) or generic (dynamic family covers generics)
				mu.Unlock()
				return
			}
			name := j.c.ifaceNames()[0]
			must(os.WriteFile(filepath.Join(fx.Root, j.c.Dir, "zz_"+name+j.suffix+"_moq.go"), resp.Out, 0o644))
			mu.Lock()
			specs = append(specs, e3Spec{Label: j.c.Dir + "." + name + j.suffix, Alias: j.alias, PkgPath: modPath + "/" + j.c.Dir,
				Expr: "&" + j.alias + "." + name + j.suffix + "{}", MockType: name + j.suffix, Iface: name, Family: "shape", Stub: j.c.Cfg.Stub, Resets: j.c.Cfg.Resets})
			mu.Unlock()
		}()
	}
	wg.Wait()
	rep.Set("shapes_skipped_not_compilable_or_generic", skipped)
	sort.Slice(specs, func(i, j int) bool { return specs[i].Label < specs[j].Label })
	return specs
}

func writeE3Driver(fx *Fixture, specs []e3Spec) string {
	var b strings.Builder
	b.WriteString("// Code generated by vcheck; DO NOT EDIT.\npackage main\n\nimport (\n\t\"verif/rt/e3rt\"\n")
	seen := map[string]bool{}
	for _, s := range specs {
		if !seen[s.Alias] {
			seen[s.Alias] = true
			fmt.Fprintf(&b, "\t%s %q\n", s.Alias, s.PkgPath)
		}
	}
	b.WriteString(")\n\nfunc main() {\n\te3rt.Main([]e3rt.MockSpec{\n")
	for _, s := range specs {
		fmt.Fprintf(&b, "\t\t{Name: %q, MockType: %q, Iface: %q, New: func() any { return %s }, Stub: %v, Resets: %v, Family: %q},\n",
			s.Label, s.MockType, s.Iface, s.Expr, s.Stub, s.Resets, s.Family)
	}
	b.WriteString("\t})\n}\n")
	dir := filepath.Join(fx.Root, "cmd", "e3")
	writeFile(filepath.Join(dir, "main.go"), b.String())
	return dir
}

func goBuild(fx *Fixture, dir, out string, extra ...string) error {
	args := append([]string{"build"}, extra...)
	args = append(args, "-o", out, ".")
	cmd := exec.Command(goRoot+"/bin/go", args...)
	cmd.Dir = dir
	var env []string
	for _, e := range fx.Env {
		if !strings.HasPrefix(e, "GOMAXPROCS=") {
			env = append(env, e)
		}
	}
	cmd.Env = env
	var eb bytes.Buffer
	cmd.Stderr, cmd.Stdout = &eb, &eb
	if err := cmd.Run(); err != nil {
		return fmt.Errorf("go build %s: %v\n%s", dir, err, firstLines(eb.String(), 40))
	}
	return nil
}

var e3Props = map[string]string{
	"C03": "delegation: exactly once, caller's goroutine, identical arguments (reference identity, variadic slice identity), results / panic value forwarded, no other function invoked",
	"C04": "recording: list model equality after every operation, zero-value mock, record visible inside the function and kept after a panic, snapshot immutability",
	"C07": "nil function: identifying panic without -stub, zero values and a record with -stub",
	"C08": "reset API present iff requested; resets clear exactly the named lists",
}

func runE3(prop, tier string) int {
	rep := NewReport(prop, tier, "model_checking", "E3")
	work := workDir()
	defer cleanup(work)
	t0 := time.Now()
	var builds []dynBuild
	var pkgs []*SrcPkg
	for _, st := range []bool{false, true} {
		for _, rs := range []bool{false, true} {
			b := dynBuild{Stub: st, Resets: rs, Dir: fmt.Sprintf("s/dyn_s%dr%d", b2i(st), b2i(rs))}
			builds = append(builds, b)
			pkgs = append(pkgs, dynPkg(b.Dir))
		}
	}
	var shapePkgs []*SrcPkg
	shapePkgs = append(shapePkgs, scopeType(1, "PR")...)
	shapePkgs = append(shapePkgs, scopeType(1, "V")...)
	shapePkgs = append(shapePkgs, scopeCfg()...)
	shapePkgs = append(shapePkgs, scopeEmbed()...)
	if tier == "thorough" {
		shapePkgs = append(shapePkgs, scopeName2("rest")...)
	}
	pkgs = append(pkgs, shapePkgs...)
	fx := NewFixture(work+"/fx", dedupPkgs(pkgs))
	addRtModule(fx)
	validateFixture(fx)
	specs := e3Prepare(fx, rep, dedupPkgs(shapePkgs), builds)
	if specs == nil {
		rep.Set("evaluations", 1)
		rep.Set("distinct_nontrivial", 0)
		return rep.Finish()
	}
	dir := writeE3Driver(fx, specs)
	bin := filepath.Join(work, "e3driver")
	if err := goBuild(fx, dir, bin); err != nil {
		// generated code that moq accepted and go/types accepted must compile: this is a C01-class
		// violation of the tree under test, reported under the property being checked.
		fatalf("driver build failed (mocks that go/types accepted, or the harness itself): %v", err)
	}
	fmt.Fprintf(os.Stderr, "e3: %d mocks generated and compiled in %.1fs\n", len(specs), time.Since(t0).Seconds())
	depth, sdepth := 4, 2
	if tier == "thorough" {
		depth, sdepth = 5, 3
	}
	cmd := exec.Command(bin, fmt.Sprintf("-depth=%d", depth), fmt.Sprintf("-shape-depth=%d", sdepth))
	var ob, eb bytes.Buffer
	cmd.Stdout, cmd.Stderr = &ob, &eb
	if err := cmd.Run(); err != nil {
		rep.Violate(&Violation{Diag: "driver: the history driver crashed", Case: "E3 driver", Detail: firstLines(eb.String(), 30)})
		rep.Set("evaluations", 1)
		rep.Set("distinct_nontrivial", 0)
		return rep.Finish()
	}
	var er e3Report
	if err := json.Unmarshal(ob.Bytes(), &er); err != nil {
		fatalf("e3 driver output: %v\n%s", err, firstLines(ob.String(), 5))
	}
	for _, v := range er.Violations {
		if v.Prop == "HARNESS" {
			fatalf("e3 driver: %s: %s", v.Mock, v.Detail)
		}
		if !strings.Contains(v.Prop, prop) {
			continue
		}
		rep.Violate(&Violation{Diag: "history: " + v.Oracle, Case: v.Mock + ": " + strings.Join(v.History, " ; "), Detail: v.Detail,
			Features: []string{"mock:" + v.Mock}, Replay: map[string]any{"engine": "E3", "mock": v.Mock, "history": v.History, "oracle": v.Oracle}})
	}
	if er.Hung {
		rep.Cap("the history driver stopped at a hang inside generated code; exploration incomplete")
	}
	other := 0
	for _, v := range er.Violations {
		if !strings.Contains(v.Prop, prop) {
			other++
		}
	}
	rep.Set("violations_attributed_to_other_properties", other)
	rep.Set("evaluations", int(er.Histories))
	rep.Set("distinct_nontrivial", int(er.Histories)) // every history is a distinct op sequence on a mock with ≥1 method
	rep.Set("states", er.States)
	rep.Set("transitions", int(er.Ops))
	rep.Set("traces_validated_against_impl", int(er.Histories))
	rep.Set("mocks_driven", er.Mocks)
	rep.Set("bounds", map[string]any{"dynamic_family_depth": depth, "all_shapes_depth": sdepth, "dynamic_family": dynIfaces, "builds": "stub x with-resets",
		"token_domain": 2, "callback_behaviours": []string{"nil", "return", "panic", "read own calls inside", "call another method inside"}})
	rep.Set("callbacks_checked", int(er.Callbacks))
	rep.Set("nil_panics_checked", int(er.NilPanics))
	rep.Set("snapshot_stability_checks", int(er.SnapsStable))
	var samples []any
	for _, s := range er.Samples {
		samples = append(samples, s)
	}
	rep.Set("samples", samples)
	rep.Set("rule", "all operation sequences (call with each callback behaviour, accessor read kept as snapshot, per-method reset, reset-all) up to the stated depth on fresh zero-value mocks compiled from the generator's output, compared step by step with a list model; oracle for this property: "+e3Props[prop]+"; states = distinct (model lengths, len/cap of each record slice, snapshot sharing) tuples; every history is an execution of the compiled implementation")
	if prop == "C08" {
		c08Static(rep, tier)
	}
	if prop == "C07" || prop == "C08" {
		// -stub / -with-resets must take effect when the mock is regenerated over an older file
		cliFlagSequences(fx, work, rep, "sequence: ")
	}
	rep.Assume = []string{"reflection calls behave like direct calls", "values of interface types with methods are passed as nil (they cannot be implemented by reflection)", "argument domain: 2 tokens per parameter"}
	return rep.Finish()
}

func b2i(b bool) int {
	if b {
		return 1
	}
	return 0
}
