package main

// E4 sched: generated mocks are instrumented after moq emitted them (sync import redirected
// to verif/rt/shimsync, access hooks before every statement touching receiver fields) and
// model-checked under the controlled scheduler of /verif/rt/sched.

import (
	"bytes"
	"encoding/json"
	"fmt"
	"go/ast"
	"go/printer"
	"go/token"
	"go/types"
	"os"
	"os/exec"
	"path/filepath"
	"strconv"
	"strings"
	"sync"
	"time"
)

// instrumentMock rewrites the emitted file in place (AST of tc.File) and returns the new
// source. It reports how many sync imports were redirected and how many hooks inserted.
func instrumentMock(fx *Fixture, tc *TC) ([]byte, int, int, error) {
	f := tc.File
	redirected := 0
	hookPkg := "vshimhook"
	isSyncMutexType := func(e ast.Expr) bool {
		sel, ok := e.(*ast.SelectorExpr)
		if !ok {
			return false
		}
		tn, ok := tc.Info.Uses[sel.Sel].(*types.TypeName)
		return ok && tn.Pkg() != nil && tn.Pkg().Path() == "sync" && (tn.Name() == "RWMutex" || tn.Name() == "Mutex")
	}
	// Only fields whose whole type is sync.RWMutex / sync.Mutex (the mock's own locks) are
	// redirected to the shim; sync types inside signatures (M() *sync.Mutex) stay real.
	syncName := ""
	for _, spec := range f.Imports {
		if p, _ := strconv.Unquote(spec.Path.Value); p == "sync" {
			syncName = "sync"
			if spec.Name != nil {
				syncName = spec.Name.Name
			}
		}
	}
	ast.Inspect(f, func(n ast.Node) bool {
		st, ok := n.(*ast.StructType)
		if !ok || st.Fields == nil {
			return true
		}
		for _, fld := range st.Fields.List {
			if isSyncMutexType(fld.Type) {
				sel := fld.Type.(*ast.SelectorExpr)
				fld.Type = &ast.SelectorExpr{X: ast.NewIdent(hookPkg), Sel: ast.NewIdent(sel.Sel.Name)}
				redirected++
			}
		}
		return true
	})
	if redirected == 0 || syncName == "" {
		return nil, 0, 0, fmt.Errorf("no sync mutex field to redirect")
	}
	for _, d := range f.Decls {
		if gd, ok := d.(*ast.GenDecl); ok && gd.Tok == token.IMPORT {
			gd.Specs = append(gd.Specs, &ast.ImportSpec{Name: ast.NewIdent(hookPkg), Path: &ast.BasicLit{Kind: token.STRING, Value: strconv.Quote("verif/rt/shimsync")}})
			break
		}
	}
	// keep the sync import used even if the lock fields were its only use
	f.Decls = append(f.Decls, &ast.GenDecl{Tok: token.VAR, Specs: []ast.Spec{&ast.ValueSpec{Names: []*ast.Ident{ast.NewIdent("_")},
		Type: &ast.SelectorExpr{X: ast.NewIdent(syncName), Sel: ast.NewIdent("Locker")}}}})
	hooks := 0
	isMutex := func(t types.Type) bool {
		if n, ok := types.Unalias(t).(*types.Named); ok && n.Obj().Pkg() != nil && n.Obj().Pkg().Path() == "sync" {
			return n.Obj().Name() == "RWMutex" || n.Obj().Name() == "Mutex"
		}
		return false
	}
	for _, d := range f.Decls {
		fd, ok := d.(*ast.FuncDecl)
		if !ok || fd.Recv == nil || fd.Body == nil || len(fd.Recv.List) != 1 || len(fd.Recv.List[0].Names) != 1 {
			continue
		}
		recvObj := tc.Info.Defs[fd.Recv.List[0].Names[0]]
		if recvObj == nil {
			continue
		}
		// chain returns the field chain rooted at the receiver that e denotes, or nil
		var chainOf func(e ast.Expr) ast.Expr
		chainOf = func(e ast.Expr) ast.Expr {
			switch x := e.(type) {
			case *ast.Ident:
				if tc.Info.Uses[x] == recvObj {
					return x
				}
			case *ast.SelectorExpr:
				if base := chainOf(x.X); base != nil {
					if sel := tc.Info.Selections[x]; sel != nil && sel.Kind() == types.FieldVal {
						return x
					}
				}
			}
			return nil
		}
		type access struct {
			expr  ast.Expr
			write bool
		}
		// collect maximal field chains inside a statement's own expressions
		collect := func(n ast.Node, writes map[ast.Expr]bool) []access {
			var out []access
			if n == nil {
				return nil
			}
			var visit func(n ast.Node) bool
			visit = func(n ast.Node) bool {
				switch x := n.(type) {
				case *ast.FuncLit, *ast.BlockStmt:
					return false
				case *ast.SelectorExpr:
					if c := chainOf(x); c != nil {
						if _, isIdent := c.(*ast.Ident); !isIdent {
							skip := false
							for e := ast.Expr(x); ; {
								if tv, ok := tc.Info.Types[e]; ok && isMutex(tv.Type) {
									skip = true
								}
								se, ok := e.(*ast.SelectorExpr)
								if !ok {
									break
								}
								e = se.X
							}
							if !skip {
								out = append(out, access{x, writes[x]})
							}
							return false
						}
					}
					// a method selection on a chain (mock.lockM.Lock): look at the operand
					ast.Inspect(x.X, visit)
					return false
				}
				return true
			}
			ast.Inspect(n, visit)
			return out
		}
		var rewrite func(list []ast.Stmt) []ast.Stmt
		rewrite = func(list []ast.Stmt) []ast.Stmt {
			var out []ast.Stmt
			for _, st := range list {
				var acc []access
				switch x := st.(type) {
				case *ast.AssignStmt:
					w := map[ast.Expr]bool{}
					for _, l := range x.Lhs {
						w[l] = true
					}
					for _, r := range x.Rhs {
						acc = append(acc, collect(r, nil)...)
					}
					for _, l := range x.Lhs {
						acc = append(acc, collect(l, w)...)
					}
				case *ast.IfStmt:
					acc = append(acc, collect(x.Init, nil)...)
					acc = append(acc, collect(x.Cond, nil)...)
					x.Body.List = rewrite(x.Body.List)
					if eb, ok := x.Else.(*ast.BlockStmt); ok {
						eb.List = rewrite(eb.List)
					}
				case *ast.BlockStmt:
					x.List = rewrite(x.List)
				case *ast.ForStmt:
					acc = append(acc, collect(x.Init, nil)...)
					acc = append(acc, collect(x.Cond, nil)...)
					x.Body.List = rewrite(x.Body.List)
				case *ast.RangeStmt:
					acc = append(acc, collect(x.X, nil)...)
					x.Body.List = rewrite(x.Body.List)
				default:
					acc = append(acc, collect(st, nil)...)
				}
				for _, a := range acc {
					var buf bytes.Buffer
					printer.Fprint(&buf, fx.fset, a.expr)
					call := &ast.ExprStmt{X: &ast.CallExpr{
						Fun: &ast.SelectorExpr{X: ast.NewIdent(hookPkg), Sel: ast.NewIdent("Access")},
						Args: []ast.Expr{&ast.UnaryExpr{Op: token.AND, X: a.expr}, ast.NewIdent(strconv.FormatBool(a.write)),
							&ast.BasicLit{Kind: token.STRING, Value: strconv.Quote(buf.String())}},
					}}
					out = append(out, call)
					hooks++
				}
				out = append(out, st)
			}
			return out
		}
		fd.Body.List = rewrite(fd.Body.List)
	}
	var buf bytes.Buffer
	if err := printer.Fprint(&buf, fx.fset, f); err != nil {
		return nil, 0, 0, err
	}
	return buf.Bytes(), redirected, hooks, nil
}

// adapter for interface Two{ M(a int, b string) (int, error); N(xs ...int) }
const e4AdapterTwo = `
type tgt%[1]d struct{}

func (tgt%[1]d) Name() string    { return %[2]q }
func (tgt%[1]d) HasResets() bool { return %[3]v }
func (tgt%[1]d) Stub() bool      { return %[4]v }
func (tgt%[1]d) New() e4rt.Mock  { return &ad%[1]d{m: &%[5]s.%[6]s{}} }

type ad%[1]d struct{ m *%[5]s.%[6]s }

func (a *ad%[1]d) CallM(tok int) { a.m.M(tok, "s"+strconv.Itoa(tok)) }
func (a *ad%[1]d) CallN(tok int) { a.m.N(tok, tok) }
func (a *ad%[1]d) MCalls() e4rt.Snap { return snap(reflect.ValueOf(a.m.MCalls()), decodeM) }
func (a *ad%[1]d) NCalls() e4rt.Snap { return snap(reflect.ValueOf(a.m.NCalls()), decodeN) }
func (a *ad%[1]d) ResetM()       { %[7]s }
func (a *ad%[1]d) ResetAll()     { %[8]s }
func (a *ad%[1]d) SetMFunc(f func(int)) {
	if f == nil {
		a.m.MFunc = nil
		return
	}
	a.m.MFunc = func(x int, y string) (int, error) { f(x); return 0, nil }
}
func (a *ad%[1]d) SetNFunc(f func(int)) {
	a.m.NFunc = func(xs ...int) { f(xs[0]) }
}
`

// the same interface with the roles swapped: the variadic, result-less N is the method whose
// function field runs the callback programs
const e4AdapterTwoSwapped = `
type tgt%[1]d struct{}

func (tgt%[1]d) Name() string    { return %[2]q }
func (tgt%[1]d) HasResets() bool { return %[3]v }
func (tgt%[1]d) Stub() bool      { return %[4]v }
func (tgt%[1]d) New() e4rt.Mock  { return &ad%[1]d{m: &%[5]s.%[6]s{}} }

type ad%[1]d struct{ m *%[5]s.%[6]s }

func (a *ad%[1]d) CallM(tok int) { a.m.N(tok, tok) }
func (a *ad%[1]d) CallN(tok int) { a.m.M(tok, "s"+strconv.Itoa(tok)) }
func (a *ad%[1]d) MCalls() e4rt.Snap { return snap(reflect.ValueOf(a.m.NCalls()), decodeN) }
func (a *ad%[1]d) NCalls() e4rt.Snap { return snap(reflect.ValueOf(a.m.MCalls()), decodeM) }
func (a *ad%[1]d) ResetM()       { %[7]s }
func (a *ad%[1]d) ResetAll()     { %[8]s }
func (a *ad%[1]d) SetMFunc(f func(int)) {
	if f == nil {
		a.m.NFunc = nil
		return
	}
	a.m.NFunc = func(xs ...int) { f(xs[0]) }
}
func (a *ad%[1]d) SetNFunc(f func(int)) {
	a.m.MFunc = func(x int, y string) (int, error) { f(x); return 0, nil }
}
`

// adapter for interface Void{ P(); Q(x Loc) }: P plays the role of M (its records carry no
// data, so every token is 0 and only counts are compared), Q the role of N.
const e4AdapterVoid = `
type tgt%[1]d struct{}

func (tgt%[1]d) Name() string    { return %[2]q }
func (tgt%[1]d) HasResets() bool { return %[3]v }
func (tgt%[1]d) Stub() bool      { return %[4]v }
func (tgt%[1]d) New() e4rt.Mock  { return &ad%[1]d{m: &%[5]s.%[6]s{}} }
func (tgt%[1]d) TokenFree() bool { return true }

type ad%[1]d struct{ m *%[5]s.%[6]s }

func (a *ad%[1]d) CallM(tok int) { a.m.P() }
func (a *ad%[1]d) CallN(tok int) { a.m.Q(%[5]s.Loc{V: tok}) }
func (a *ad%[1]d) MCalls() e4rt.Snap { return snap(reflect.ValueOf(a.m.PCalls()), decodeP) }
func (a *ad%[1]d) NCalls() e4rt.Snap { return snap(reflect.ValueOf(a.m.QCalls()), decodeQ) }
func (a *ad%[1]d) ResetM()       { %[7]s }
func (a *ad%[1]d) ResetAll()     { %[8]s }
func (a *ad%[1]d) SetMFunc(f func(int)) {
	if f == nil {
		a.m.PFunc = nil
		return
	}
	a.m.PFunc = func() { f(0) }
}
func (a *ad%[1]d) SetNFunc(f func(int)) {
	a.m.QFunc = func(x %[5]s.Loc) { f(x.V) }
}
`

const e4MainHead = `// Code generated by vcheck; DO NOT EDIT.
package main

import (
	"reflect"
	"strconv"

	"verif/rt/e4rt"
%s)

// records are decoded positionally (field 0, field 1) so that the harness does not
// depend on the names moq gives to call-record fields
func decodeM(v reflect.Value) []int {
	out := make([]int, v.Len())
	for i := range out {
		r := v.Index(i)
		a, b := int(r.Field(0).Int()), r.Field(1).String()
		if b == "s"+strconv.Itoa(a) {
			out[i] = a
		} else {
			out[i] = -1
		}
	}
	return out
}

func snap(v reflect.Value, dec func(reflect.Value) []int) e4rt.Snap {
	return e4rt.Snap{Tokens: dec(v), Again: func() []int { return dec(v) }}
}

func decodeP(v reflect.Value) []int { return make([]int, v.Len()) }

func decodeQ(v reflect.Value) []int {
	out := make([]int, v.Len())
	for i := range out {
		out[i] = int(v.Index(i).Field(0).Field(0).Int())
	}
	return out
}

func decodeN(v reflect.Value) []int {
	out := make([]int, v.Len())
	for i := range out {
		xs := v.Index(i).Field(0)
		if xs.Len() == 2 && xs.Index(0).Int() == xs.Index(1).Int() {
			out[i] = int(xs.Index(0).Int())
		} else {
			out[i] = -1
		}
	}
	return out
}
`

type e4Report struct {
	Target          string        `json:"target"`
	Scenarios       int           `json:"scenarios"`
	Executions      int64         `json:"executions"`
	Transitions     int64         `json:"transitions"`
	States          int64         `json:"states"`
	Bound           int           `json:"bound"`
	Capped          int           `json:"capped_scenarios"`
	SingleOutcome   int           `json:"scenarios_with_one_outcome"`
	MultiOutcome    int           `json:"scenarios_with_several_outcomes"`
	MaxOutcomes     int           `json:"max_distinct_outcomes"`
	DistinctOutcome int           `json:"distinct_outcomes_total"`
	Violations      []e4Violation `json:"violations"`
	Samples         []string      `json:"samples"`
	HarnessErrors   []string      `json:"harness_errors"`
}

type e4Violation struct {
	Prop        string   `json:"prop"`
	Kind        string   `json:"kind"`
	Target      string   `json:"target"`
	Scenario    string   `json:"scenario"`
	ScenarioIdx int      `json:"scenario_index"`
	Choices     []int    `json:"choices"`
	Preemptions int      `json:"preemptions"`
	Detail      string   `json:"detail"`
	Log         []string `json:"log"`
}

// e4Build prepares the instrumented mocks and the driver binary; returns its path.
func e4Build(fx *Fixture, work string, rep *Report, builds []dynBuild) (string, error) {
	pool := NewPool(4, fx.Env)
	var imports, adapters, targets strings.Builder
	totalHooks := 0
	for i, b := range builds {
		c := &Case{Dir: b.Dir, Ifaces: append([]string{}, dynIfaces...), Cfg: Cfg{Stub: b.Stub, Resets: b.Resets}, Scope: "dyn"}
		if b.Stub && b.Resets {
			c.Ifaces[0] = "Two:CustomTwo"
		}
		resp := pool.Fresh(c.req(fx))
		if resp.Err != "" || resp.Died != "" || resp.Panic != "" {
			return "", fmt.Errorf("moq failed on the dynamic family (%s): %s%s%s", b.Dir, resp.Err, resp.Died, resp.Panic)
		}
		r := &Result{Case: c, Resp: resp, Fx: fx, Src: fx.Src(b.Dir)}
		tc := r.Typecheck()
		if tc.ParseErr != nil || len(tc.Errs) > 0 {
			detail := fmt.Sprint(tc.ParseErr)
			for _, e := range tc.Errs {
				detail += "\n" + e.Error()
			}
			rep.Violate(&Violation{Diag: "precondition: generated mocks of the dynamic family do not type-check", Case: c.String(), Detail: firstLines(detail, 12), Features: []string{"e4:precondition"}})
			return "", nil
		}
		src, red, hooks, err := instrumentMock(fx, tc)
		if err != nil {
			return "", fmt.Errorf("instrumentation of %s: %v", b.Dir, err)
		}
		totalHooks += hooks
		_ = red
		must(os.WriteFile(filepath.Join(fx.Root, b.Dir, "zz_moq.go"), src, 0o644))
		alias := fmt.Sprintf("d%d", i)
		fmt.Fprintf(&imports, "\t%s %q\n", alias, modPath+"/"+b.Dir)
		resetM, resetAll := `panic("no reset API")`, `panic("no reset API")`
		if b.Resets {
			resetM, resetAll = "a.m.ResetMCalls()", "a.m.ResetCalls()"
		}
		fmt.Fprintf(&adapters, e4AdapterTwo, 3*i, filepath.Base(b.Dir)+".Two", b.Resets, b.Stub, alias, c.mockNames()[0], resetM, resetAll)
		if b.Resets {
			resetM = "a.m.ResetNCalls()"
		}
		fmt.Fprintf(&adapters, e4AdapterTwoSwapped, 3*i+2, filepath.Base(b.Dir)+".Two(N drives)", b.Resets, b.Stub, alias, c.mockNames()[0], resetM, resetAll)
		if b.Resets {
			resetM = "a.m.ResetPCalls()"
		}
		fmt.Fprintf(&adapters, e4AdapterVoid, 3*i+1, filepath.Base(b.Dir)+".Void", b.Resets, b.Stub, alias, c.mockNames()[1], resetM, resetAll)
		fmt.Fprintf(&targets, "\t\ttgt%d{},\n\t\ttgt%d{},\n\t\ttgt%d{},\n", 3*i, 3*i+1, 3*i+2)
	}
	rep.Set("access_hooks_inserted", totalHooks)
	main := fmt.Sprintf(e4MainHead, imports.String()) + adapters.String() + "\nfunc main() {\n\te4rt.Main([]e4rt.Target{\n" + targets.String() + "\t})\n}\n"
	dir := filepath.Join(fx.Root, "cmd", "e4")
	writeFile(filepath.Join(dir, "main.go"), main)
	bin := filepath.Join(work, "e4driver")
	if err := goBuild(fx, dir, bin); err != nil {
		return "", err
	}
	return bin, nil
}

func dynBuilds(prefix string) ([]dynBuild, []*SrcPkg) {
	var builds []dynBuild
	var pkgs []*SrcPkg
	for _, st := range []bool{false, true} {
		for _, rs := range []bool{false, true} {
			b := dynBuild{Stub: st, Resets: rs, Dir: fmt.Sprintf("s/%s_s%dr%d", prefix, b2i(st), b2i(rs))}
			builds = append(builds, b)
			pkgs = append(pkgs, dynPkg(b.Dir))
		}
	}
	return builds, pkgs
}

func runE4(prop, tier string) int {
	rep := NewReport(prop, tier, "model_checking", "E4")
	work := workDir()
	defer cleanup(work)
	t0 := time.Now()
	builds, pkgs := dynBuilds("dyn4")
	shapePkgs := e4ShapePkgs()
	fx := NewFixture(work+"/fx", append(pkgs, shapePkgs...))
	addRtModule(fx)
	validateFixture(fx)
	bin, err := e4Build(fx, work, rep, builds)
	if err == nil && bin == "" {
		rep.Set("evaluations", 1)
		rep.Set("distinct_nontrivial", 0)
		return rep.Finish()
	}
	if err != nil {
		fatalf("driver build failed (mocks that go/types accepted, or the harness itself): %v", err)
	}
	fmt.Fprintf(os.Stderr, "e4: driver built in %.1fs\n", time.Since(t0).Seconds())
	bound, level := 2, 1
	if tier == "thorough" {
		bound, level = 3, 2
	}
	shards := nproc()
	outs := make([][]e4Report, shards)
	errs := make([]string, shards)
	var wg sync.WaitGroup
	for k := 0; k < shards; k++ {
		k := k
		wg.Add(1)
		go func() {
			defer wg.Done()
			cmd := exec.Command(bin, fmt.Sprintf("-bound=%d", bound), fmt.Sprintf("-level=%d", level), fmt.Sprintf("-shard=%d", k), fmt.Sprintf("-of=%d", shards))
			cmd.Env = append(os.Environ(), "GOMAXPROCS=1")
			var ob, eb bytes.Buffer
			cmd.Stdout, cmd.Stderr = &ob, &eb
			if err := cmd.Run(); err != nil {
				errs[k] = fmt.Sprintf("shard %d: %v\n%s", k, err, firstLines(eb.String(), 30))
				return
			}
			if err := json.Unmarshal(ob.Bytes(), &outs[k]); err != nil {
				errs[k] = fmt.Sprintf("shard %d: %v", k, err)
			}
		}()
	}
	wg.Wait()
	for _, e := range errs {
		if e != "" {
			fatalf("e4 driver: %s", e)
		}
	}
	var execs, trans, states int64
	scen, single, multi, capped, maxOut, distinct := 0, 0, 0, 0, 0, 0
	var samples []any
	seen := map[string]bool{}
	for _, shard := range outs {
		for _, r := range shard {
			for _, he := range r.HarnessErrors {
				fatalf("e4 harness error (schedule replay diverged): %s", he)
			}
			execs += r.Executions
			trans += r.Transitions
			states += r.States
			scen += r.Scenarios
			single += r.SingleOutcome
			multi += r.MultiOutcome
			capped += r.Capped
			distinct += r.DistinctOutcome
			if r.MaxOutcomes > maxOut {
				maxOut = r.MaxOutcomes
			}
			for _, s := range r.Samples {
				if len(samples) < 6 {
					samples = append(samples, r.Target+": "+s)
				}
			}
			for _, v := range r.Violations {
				if v.Prop != prop {
					continue
				}
				k := v.Kind + "|" + v.Target
				if seen[k] {
					rep.Add("further_violating_scenarios", 1)
					continue
				}
				seen[k] = true
				choices := make([]string, len(v.Choices))
				for i, c := range v.Choices {
					choices[i] = strconv.Itoa(c)
				}
				rep.Violate(&Violation{Diag: "schedule: " + v.Kind, Case: v.Target + ": " + v.Scenario, Features: []string{"target:" + v.Target},
					Detail: fmt.Sprintf("%s\npreemptions: %d\nschedule:\n  %s", v.Detail, v.Preemptions, strings.Join(v.Log, "\n  ")),
					Replay: map[string]any{"engine": "E4", "target": v.Target, "scenario_index": v.ScenarioIdx, "choices": v.Choices, "level": level,
						"spec": fmt.Sprintf("%s|%d|%s", v.Target, v.ScenarioIdx, strings.Join(choices, ","))}})
			}
		}
	}
	if capped > 0 {
		rep.Cap(fmt.Sprintf("%d scenarios hit the per-scenario execution cap", capped))
	}
	rep.Set("evaluations", int(execs))
	rep.Set("distinct_nontrivial", distinct)
	rep.Set("states", int(states))
	rep.Set("transitions", int(trans))
	rep.Set("traces_validated_against_impl", int(execs))
	rep.Set("typed_targets_executions", int(execs))
	e4Shapes(fx, work, rep, prop, tier, shapePkgs)
	if single > 0 && multi == 0 {
		fmt.Fprintln(os.Stderr, "WARNING: every scenario produced a single outcome: nothing collided")
	}
	rep.Set("scenarios", scen)
	rep.Set("scenarios_with_one_outcome", single)
	rep.Set("scenarios_with_several_outcomes", multi)
	rep.Set("max_distinct_outcomes_per_scenario", maxOut)
	rep.Set("bounds", map[string]any{"preemption_bound_completed": bound, "threads": "1-3", "ops_per_thread": "1-2 (3-thread scenarios: 1, thorough adds one 2-op thread)",
		"builds":         "stub x with-resets on interfaces Two and Void (custom mock name in one build)",
		"all_shapes_leg": "every compilable shape of S-type1, S-cfg, S-embed and 10 extra shapes (with-resets, stub+with-resets): traced single-threaded, grouped by abstract sync/access trace, one representative per class explored (2 threads, 1-2 ops, same oracles)"})
	rep.Set("samples", samples)
	rep.Set("rule", "every interleaving of the synchronisation points (mutex operations with Go's writer preference, thread start, gate waits) of every scenario with at most the stated number of preemptions, on the instrumented compiled mock; evaluations = executions (each is a run of the real generated code); distinct_nontrivial = sum over scenarios of distinct observed outcomes (final lists + snapshots); states = distinct per-thread progress vectors per scenario")
	rep.Assume = []string{
		"scheduling at mutex granularity is complete for data-race-free code; race freedom itself is decided per execution by a vector-clock happens-before detector fed by access hooks on every receiver-field access",
		"the mock's function fields are not reassigned during an execution (premise of C05)",
		"sync.RWMutex is modelled with writer preference (a pending Lock blocks new RLock)",
	}
	return rep.Finish()
}
