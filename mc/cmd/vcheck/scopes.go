package main

// Scopes: finite, completely enumerated sets of interface shapes (DESIGN §2.3).

import (
	"fmt"
	"sort"
	"strings"
)

// tyAtom is one type of the alphabet: Go source (with @{key}. package references),
// whether it may be a map key, whether it can be embedded in a struct, and tags.
type tyAtom struct {
	Src        string
	Comparable bool
	Embeddable bool
	Tags       []string
}

var atoms = []tyAtom{
	{"int", true, false, nil}, {"string", true, false, nil}, {"bool", true, false, nil}, {"byte", true, false, nil},
	{"error", true, false, nil}, {"any", true, false, nil}, {"float64", true, false, nil}, {"rune", true, false, nil},
	{"uintptr", true, false, nil}, {"complex128", true, false, nil},
	{"Loc", true, true, nil}, {"*Loc", true, true, nil}, {"LocI", true, true, nil}, {"LocAlias", true, true, nil},
	{"@{~/a/foo}.T", true, true, nil}, {"*@{~/a/foo}.T", true, true, nil}, {"@{~/a/foo}.I", true, true, nil},
	{"@{~/a/foo}.A", true, true, nil}, {"@{~/a/foo}.E", true, true, nil}, {"@{~/a/foo}.F", false, true, nil},
	{"@{unsafe}.Pointer", true, false, []string{"type:unsafe.Pointer"}},
	{"@{time}.Duration", true, true, nil},
}

type tyCons struct {
	Name string
	Mk   func(x tyAtom) (string, bool)
}

var constructors = []tyCons{
	{"ptr", func(x tyAtom) (string, bool) { return "*" + x.Src, !strings.HasPrefix(x.Src, "*") }},
	{"slice", func(x tyAtom) (string, bool) { return "[]" + x.Src, true }},
	{"array", func(x tyAtom) (string, bool) { return "[3]" + x.Src, true }},
	{"mapval", func(x tyAtom) (string, bool) { return "map[string]" + x.Src, true }},
	{"mapkey", func(x tyAtom) (string, bool) { return "map[" + x.Src + "]int", x.Comparable }},
	{"mapkv", func(x tyAtom) (string, bool) { return "map[" + x.Src + "]" + x.Src, x.Comparable }},
	{"chan", func(x tyAtom) (string, bool) { return "chan " + x.Src, true }},
	{"rchan", func(x tyAtom) (string, bool) { return "<-chan " + x.Src, true }},
	{"schan", func(x tyAtom) (string, bool) { return "chan<- " + x.Src, true }},
	{"func1", func(x tyAtom) (string, bool) { return "func(" + x.Src + ") " + x.Src, true }},
	{"funcv", func(x tyAtom) (string, bool) { return "func(..." + x.Src + ")", true }},
	{"funcnamed", func(x tyAtom) (string, bool) { return "func(a " + x.Src + ") (r " + x.Src + ", err error)", true }},
	{"structf", func(x tyAtom) (string, bool) { return "struct{ F " + x.Src + " }", true }},
	{"structemb", func(x tyAtom) (string, bool) { return "struct{ " + x.Src + " }", x.Embeddable }},
	{"structtag", func(x tyAtom) (string, bool) { return "struct{ F " + x.Src + " `json:\"f\"` }", true }},
	{"ifacem", func(x tyAtom) (string, bool) { return "interface{ M(" + x.Src + ") " + x.Src + " }", true }},
	{"box", func(x tyAtom) (string, bool) { return "Box[" + x.Src + "]", true }},
	{"depg", func(x tyAtom) (string, bool) { return "@{~/b/foo}.G[" + x.Src + "]", true }},
	{"sliceslice", func(x tyAtom) (string, bool) { return "[][]" + x.Src, true }},
	{"ptrslice", func(x tyAtom) (string, bool) { return "*[]" + x.Src, true }},
	{"chanchan", func(x tyAtom) (string, bool) { return "chan (<-chan " + x.Src + ")", true }},
}

// extra single types that do not fit the atom×constructor product.
var extraTypes = []string{
	"interface{ @{~/a/foo}.I }", "interface{ LocI; @{~/a/foo}.I }", "interface{ @{context}.Context; Tag() string }", "interface{ @{io}.Reader; Close() error }",
	"func()", "func() error", "struct{}", "interface{}", "[]func(@{~/a/foo}.T) @{~/b/foo}.T",
	"map[@{~/a/foo}.T]@{~/b/foo}.T", "func(@{context}.Context, ...@{~/a/foo}.T) (@{~/b/foo}.T, error)",
	"@{~/b/foo}.G[@{~/a/foo}.T]", "Box[Box[@{~/a/foo}.T]]", "map[string]map[string][]*@{~/a/foo}.T",
	"*@{net/http}.Request", "@{net/http}.ResponseWriter", "@{net/http}.Handler", "@{context}.Context", "[]@{context}.Context", "@{time}.Time", "@{~/dep/time}.T",
	"@{~/x/sync}.T", "*@{sync}.Mutex", "@{~/names/s}.T", "@{~/names/err}.T", "@{~/names/mock}.T", "@{~/names/n}.T",
	"String", "Int", "[]String", "Error", "*Error", "Append", "[]Append", "Panic", "Nil", "*Nil",
	"@{~/b/foo}.G[@{~/b/foo}.G[Loc]]", "Box[Box[Loc]]", "@{~/a/foo}.S[Loc]", "@{~/a/foo}.S[@{~/b/foo}.T]", "@{~/apps/v1beta1}.T", "@{~/apps/v2}.T", "@{~/a/foo}.Getter[Loc]", "map[@{~/b/foo}.T]@{~/b/foo}.G[*@{~/a/foo}.T]", "@{~/b/foo}.G[map[@{~/b/foo}.T][]@{~/a/foo}.T]", "map[string]@{~/b/foo}.G[[]Loc]",
}

// typeAlphabet returns T_1 (depth ≤ 1) or T_2 (depth ≤ 2 over a reduced atom set).
func typeAlphabet(depth int) []tyAtom {
	var out []tyAtom
	seen := map[string]bool{}
	add := func(t tyAtom) {
		if !seen[t.Src] {
			seen[t.Src] = true
			out = append(out, t)
		}
	}
	for _, a := range atoms {
		add(a)
	}
	for _, c := range constructors {
		for _, a := range atoms {
			if s, ok := c.Mk(a); ok {
				add(tyAtom{Src: s, Comparable: false, Tags: append([]string{"cons:" + c.Name}, a.Tags...)})
			}
		}
	}
	for _, s := range extraTypes {
		add(tyAtom{Src: s})
	}
	if depth >= 2 {
		base := []tyAtom{atoms[0], atoms[4], atoms[10], atoms[14], {Src: "@{~/b/foo}.T", Comparable: true, Embeddable: true}}
		for _, c1 := range constructors {
			for _, c2 := range constructors {
				for _, a := range base {
					s1, ok := c1.Mk(a)
					if !ok {
						continue
					}
					mid := tyAtom{Src: s1, Comparable: false, Embeddable: false, Tags: a.Tags}
					if s2, ok := c2.Mk(mid); ok {
						add(tyAtom{Src: s2, Tags: []string{"cons:" + c2.Name + "/" + c1.Name}})
					}
				}
			}
		}
	}
	return out
}

// packer distributes interface declarations over source packages of bounded size. A
// declaration that references standard-library packages goes to a package of its own
// class (keyed by that set): loading a package costs `go list -deps -export` over all its
// dependencies (≈300 ms with net/http), so heavy imports must not tax unrelated cases.
type packer struct {
	prefix  string
	pkgName string
	per     int
	aliases map[string]string
	extra   []Imp
	pkgs    []*SrcPkg
	cur     map[string]*SrcPkg
	n       int
}

func newPacker(prefix string, per int) *packer {
	return &packer{prefix: prefix, pkgName: "src", per: per, cur: map[string]*SrcPkg{}}
}

func stdKey(decl string) string {
	set := map[string]bool{}
	for _, m := range refRe.FindAllStringSubmatch(decl, -1) {
		if !strings.HasPrefix(m[1], "~/") && m[1] != "unsafe" {
			set[m[1]] = true
		}
	}
	return strings.Join(sortedKeys(set), ",")
}

func (p *packer) add(ic IfaceCase, decl string) {
	key := stdKey(decl)
	cur := p.cur[key]
	if cur == nil || len(cur.Ifaces) >= p.per {
		cur = &SrcPkg{Dir: fmt.Sprintf("s/%s_%d", p.prefix, len(p.pkgs)), Name: p.pkgName}
		p.cur[key] = cur
		p.pkgs = append(p.pkgs, cur)
	}
	ic.Src = decl
	cur.Ifaces = append(cur.Ifaces, ic)
	// one file per declaration: same-named packages can then be imported unaliased
	cur.Files = append(cur.Files, SrcFile{Name: fmt.Sprintf("d%d.go", len(cur.Files)), Aliases: p.aliases, Extra: p.extra, Decls: decl + "\n"})
	p.n++
}

// scopeType: every type of the alphabet as the single (unnamed) parameter, as the single
// result and as the variadic element of a one-method interface.
func scopeType(depth int, which string) []*SrcPkg {
	name := fmt.Sprintf("type%d", depth)
	p := newPacker(name+strings.ToLower(which), 48)
	for i, t := range typeAlphabet(depth) {
		tags := append([]string{"ty:" + t.Src}, t.Tags...)
		if which == "PR" {
			p.add(IfaceCase{Name: fmt.Sprintf("P%d", i), Tags: tags, Scope: "S-" + name},
				fmt.Sprintf("type P%d interface{ M(%s) }", i, t.Src))
			p.add(IfaceCase{Name: fmt.Sprintf("R%d", i), Tags: tags, Scope: "S-" + name},
				fmt.Sprintf("type R%d interface{ M() %s }", i, t.Src))
		} else {
			p.add(IfaceCase{Name: fmt.Sprintf("V%d", i), Tags: tags, Scope: "S-" + name + "v"},
				fmt.Sprintf("type V%d interface{ M(a int, rest ...%s) (%s, error) }", i, t.Src, t.Src))
		}
	}
	return p.pkgs
}

// identTypes: types several of which are identical (types.Identical) although they are
// spelled through different packages, alias declarations or interface literals.
var identTypes = []string{
	"@{~/a/foo}.T", "@{~/al/legacy}.T", "@{~/a/foo}.A", "*@{~/a/foo}.T", "*@{~/al/legacy}.T",
	"@{~/a/foo}.I", "@{~/al/legacy}.I", "interface{ @{~/al/legacy}.I }", "interface{ @{~/a/foo}.I }", "interface{ Do(@{~/a/foo}.T) @{~/a/foo}.T }",
	"@{~/al/legacy}.Fn", "func(@{~/a/foo}.T) @{~/a/foo}.T", "func(@{~/al/legacy}.T) @{~/a/foo}.A", "@{~/a/foo}.F",
	"Loc", "LocAlias", "any", "interface{}", "byte", "uint8", "[]@{~/a/foo}.T", "[]@{~/al/legacy}.T",
	"map[string]@{~/al/legacy}.T", "map[string]@{~/a/foo}.T", "@{~/b/foo}.G[@{~/a/foo}.T]", "@{~/b/foo}.G[@{~/al/legacy}.T]", "Box[@{~/al/legacy}.T]", "Box[@{~/a/foo}.T]",
}

// scopeTyPair: all ordered pairs of identTypes as (parameter, parameter) and (parameter,
// result) of one method: both variables live in one method scope, so anything remembered
// per type (rather than per spelling) shows.
func scopeTyPair() []*SrcPkg {
	p := newPacker("typair", 64)
	k := 0
	for _, t1 := range identTypes {
		for _, t2 := range identTypes {
			tags := []string{"ty:" + t1, "ty2:" + t2}
			p.add(IfaceCase{Name: fmt.Sprintf("Q%d", k), Tags: append([]string{"pat:pp"}, tags...), Scope: "S-typair"},
				fmt.Sprintf("type Q%d interface{ M(a %s, b %s) }", k, t1, t2))
			k++
			p.add(IfaceCase{Name: fmt.Sprintf("Q%d", k), Tags: append([]string{"pat:pr"}, tags...), Scope: "S-typair"},
				fmt.Sprintf("type Q%d interface{ M(a %s) %s }", k, t1, t2))
			k++
		}
	}
	return p.pkgs
}

// scopeCross: two same-named packages (a/foo, b/foo) that meet in one signature without
// any source alias: the method is declared by a generic interface in a file that imports
// a/foo and instantiated with a b/foo type in another file; a/foo has already reached the
// registry through an earlier method (A sorts before M). All triples of parameter names
// around the generated aliases (afoo, bfoo) x the four orders of the three types.
func scopeCross() []*SrcPkg {
	names := []string{"", "foo", "afoo", "bfoo", "x", "afooMoqParam"}
	pats := [][3]string{{"int", "X", "@{~/a/foo}.T"}, {"X", "int", "@{~/a/foo}.T"}, {"@{~/a/foo}.T", "int", "X"}, {"int", "@{~/a/foo}.T", "X"}}
	var pkgs []*SrcPkg
	for pi, pat := range pats {
		sp := &SrcPkg{Dir: fmt.Sprintf("s/cross_%d", pi), Name: "src"}
		f0 := "type E0 interface{ A(@{~/a/foo}.T) }\n"
		f1 := ""
		k := 0
		dup := func(a, b string) bool { return a == b && a != "" }
		for _, n1 := range names {
			for _, n2 := range names {
				for _, n3 := range names {
					if dup(n1, n2) || dup(n1, n3) || dup(n2, n3) {
						continue
					}
					named := n1 != "" || n2 != "" || n3 != ""
					sig := fmt.Sprintf("M(%s, %s, %s)", paramDecl(n1, pat[0], named), paramDecl(n2, pat[1], named), paramDecl(n3, pat[2], named))
					f0 += fmt.Sprintf("type Gx%d[X any] interface{ %s }\n", k, sig)
					f1 += fmt.Sprintf("type C%d interface{ E0; Gx%d[@{~/b/foo}.T] }\n", k, k)
					tags := []string{fmt.Sprintf("pat:cross%d", pi), "cross:" + n1 + "," + n2 + "," + n3, "cpos0:" + n1, "cpos1:" + n2, "cpos2:" + n3, nameTag(n1), nameTag(n2), nameTag(n3), "imp:~/a/foo", "imp:~/b/foo"}
					if pat[2] == "X" && (n1 == "afoo" || n2 == "afoo") {
						// a parameter called afoo is allocated while a/foo is still called foo; b/foo arrives last
						tags = append(tags, "cross:afoo-named-before-realias")
					}
					sp.Ifaces = append(sp.Ifaces, IfaceCase{Name: fmt.Sprintf("C%d", k), Scope: "S-cross",
						Src:  fmt.Sprintf("f0.go (imports a/foo): type E0 interface{ A(foo.T) }; type Gx%d[X any] interface{ %s } / f1.go (imports b/foo): type C%d interface{ E0; Gx%d[foo.T] }", k, sig, k, k),
						Tags: tags})
					k++
				}
			}
		}
		sp.Files = []SrcFile{{Name: "f0.go", Decls: f0}, {Name: "f1.go", Decls: f1}}
		pkgs = append(pkgs, sp)
	}
	return pkgs
}

// Name alphabet N (DESIGN §2.2).
var nameAlphabet = []string{
	"", "_", "x", "X", "id", "iD", "url", "_x", "x1",
	"foo", "afoo", "sync", "time",
	"s", "s1", "s2", "n", "err", "fn", "val", "b", "v",
	"sMoqParam", "fooMoqParam", "sOut", "errOut", "nOut",
	"mock", "callInfo", "calls",
	"string", "int", "error", "any", "append", "panic", "nil", "len", "Loc", "config", "T", "t", "bool", "src",
}

var colliderNames = []string{"", "_", "foo", "afoo", "sync", "s", "s1", "n", "err", "sMoqParam", "fooMoqParam", "mock", "string", "Loc"}

func nameTag(n string) string { return "pname:" + n }

func paramDecl(name, typ string, anyNamed bool) string {
	if name == "" {
		if anyNamed {
			return "_ " + typ // Go requires all-or-none naming; unnamed among named is spelled _
		}
		return typ
	}
	return name + " " + typ
}

// scopeName2: all ordered pairs over the name alphabet as parameter names, over type
// patterns chosen to interact with naming; plus result names (relevant under -stub).
func scopeName2(part string) []*SrcPkg {
	p := newPacker("name2"+part, 64)
	k := 0
	scope := "S-name2-" + part
	emit := func(pat string, n1, n2, t1, t2, res string) {
		named := n1 != "" || n2 != ""
		decl := fmt.Sprintf("type N%d interface{ M(%s, %s) %s }", k, paramDecl(n1, t1, named), paramDecl(n2, t2, named), res)
		tags := []string{"pat:" + pat, nameTag(n1), nameTag(n2)}
		ic := IfaceCase{Name: fmt.Sprintf("N%d", k), Tags: tags, Scope: scope}
		if strings.Contains(decl, "config") && strings.Contains(t1+t2+res, "config") {
			ic.InPlaceOnly = true
		}
		p.add(ic, decl)
		k++
	}
	for _, n1 := range nameAlphabet {
		for _, n2 := range nameAlphabet {
			if n1 == n2 && n1 != "" && n1 != "_" {
				continue // not valid Go
			}
			if part == "pairs" {
				emit("int,foo.T", n1, n2, "int", "@{~/a/foo}.T", "")
			}
		}
	}
	if part == "pairs" {
		return p.pkgs
	}
	for _, n1 := range colliderNames {
		for _, n2 := range colliderNames {
			if n1 == n2 && n1 != "" && n1 != "_" {
				continue
			}
			emit("string,string", n1, n2, "string", "string", "(string, error)")
			emit("Loc,error", n1, n2, "Loc", "error", "(Loc, error)")
			emit("sync.T,time.T", n1, n2, "@{~/x/sync}.T", "@{time}.Time", "@{~/names/s}.T")
		}
	}
	// result names under -stub: pairs of (param name, result name) and (result, result)
	resNames := []string{"", "_", "s", "sOut", "err", "errOut", "n", "foo", "fooOut", "mock", "callInfo", "x", "xOut", "string", "Loc"}
	for _, pn := range resNames {
		for _, rn := range resNames {
			if pn == rn && pn != "" && pn != "_" {
				continue
			}
			named := rn != ""
			res := "(" + paramDecl(rn, "string", named) + ", " + paramDecl(map[bool]string{true: "err2", false: ""}[named], "error", named) + ")"
			decl := fmt.Sprintf("type N%d interface{ M(%s) %s }", k, paramDecl(pn, "@{~/a/foo}.T", pn != ""), res)
			p.add(IfaceCase{Name: fmt.Sprintf("N%d", k), Tags: []string{"pat:res", nameTag(pn), "rname:" + rn}, Scope: scope}, decl)
			k++
		}
	}
	for _, pn := range nameAlphabet {
		decl := fmt.Sprintf("type N%d interface{ M(%s) (*@{~/a/foo}.T, error) }", k, paramDecl(pn, "string", pn != ""))
		p.add(IfaceCase{Name: fmt.Sprintf("N%d", k), Tags: []string{"pat:respkg", nameTag(pn)}, Scope: scope}, decl)
		k++
	}
	// four parameters: generated names that were renumbered meet a package named like one of them
	for _, x := range []string{"@{~/names/s1}.T", "@{~/names/s2}.T", "@{~/names/s}.T", "@{~/names/err}.T", "@{~/a/foo}.T"} {
		for _, pat := range [][]string{{"string", "string", x, "string"}, {"string", x, "string", "string"}, {x, "string", "string", "string"}, {"string", "string", "string", x}} {
			decl := fmt.Sprintf("type N%d interface{ M(%s) (string, error) }", k, strings.Join(pat, ", "))
			p.add(IfaceCase{Name: fmt.Sprintf("N%d", k), Tags: []string{"pat:4", "ty4:" + x}, Scope: scope}, decl)
			k++
		}
	}
	// many variables in one method scope: a parameter named like a package that only the
	// 10th+ variable mentions
	for _, nm := range []string{"foo", "sync", "s"} {
		ty := map[string]string{"foo": "@{~/a/foo}.T", "sync": "@{~/x/sync}.T", "s": "@{~/names/s}.T"}[nm]
		decl := fmt.Sprintf("type N%d interface{ M(%s string, p2, p3, p4, p5, p6, p7, p8, p9 int, late *%s) (r1, r2 int, err error) }", k, nm, ty)
		p.add(IfaceCase{Name: fmt.Sprintf("N%d", k), Tags: []string{"pat:wide", nameTag(nm)}, Scope: scope}, decl)
		k++
		decl = fmt.Sprintf("type N%d interface{ M(a1, a2, a3, a4, a5, a6, a7 int, %s string, a9, a10 int) (r1 %s, err error) }", k, nm, ty)
		p.add(IfaceCase{Name: fmt.Sprintf("N%d", k), Tags: []string{"pat:wide-result", nameTag(nm)}, Scope: scope}, decl)
		k++
	}
	// unnamed parameters whose type is an unexported alias of the mocked package (in place only)
	for _, d := range []string{"M(handler)", "M(*handler, handler)", "M(locAlias, *locAlias) locAlias", "M(x int, _ handler) (handler, error)"} {
		decl := fmt.Sprintf("type N%d interface{ %s }", k, d)
		p.add(IfaceCase{Name: fmt.Sprintf("N%d", k), Tags: []string{"pat:alias-typed"}, Scope: scope, InPlaceOnly: true}, decl)
		k++
	}
	small := []string{"", "_", "s", "s1", "s2", "sMoqParam"}
	for _, n1 := range small {
		for _, n2 := range small {
			for _, n3 := range small {
				dup := func(a, b string) bool { return a == b && a != "" && a != "_" }
				if dup(n1, n2) || dup(n1, n3) || dup(n2, n3) {
					continue
				}
				named := n1 != "" || n2 != "" || n3 != ""
				decl := fmt.Sprintf("type N%d interface{ M(%s, %s, %s) (string, error) }", k,
					paramDecl(n1, "string", named), paramDecl(n2, "string", named), paramDecl(n3, "string", named))
				p.add(IfaceCase{Name: fmt.Sprintf("N%d", k), Tags: []string{"pat:3small", nameTag(n1), nameTag(n2), nameTag(n3)}, Scope: scope}, decl)
				k++
			}
		}
	}
	for _, r1 := range resNames {
		for _, r2 := range resNames {
			if r1 == r2 && r1 != "" && r1 != "_" {
				continue
			}
			named := r1 != "" || r2 != ""
			decl := fmt.Sprintf("type N%d interface{ M(p0 string) (%s, %s) }", k, paramDecl(r1, "string", named), paramDecl(r2, "@{~/a/foo}.T", named))
			p.add(IfaceCase{Name: fmt.Sprintf("N%d", k), Tags: []string{"pat:res2", "rname:" + r1, "rname:" + r2}, Scope: scope}, decl)
			k++
		}
	}
	return p.pkgs
}

// scopeName3: all triples over the collider names (thorough).
func scopeName3() []*SrcPkg {
	p := newPacker("name3", 64)
	k := 0
	for _, n1 := range colliderNames {
		for _, n2 := range colliderNames {
			for _, n3 := range colliderNames {
				dup := func(a, b string) bool { return a == b && a != "" && a != "_" }
				if dup(n1, n2) || dup(n1, n3) || dup(n2, n3) {
					continue
				}
				named := n1 != "" || n2 != "" || n3 != ""
				decl := fmt.Sprintf("type N%d interface{ M(%s, %s, %s) (string, error) }", k,
					paramDecl(n1, "string", named), paramDecl(n2, "@{~/a/foo}.T", named), paramDecl(n3, "@{~/x/sync}.T", named))
				p.add(IfaceCase{Name: fmt.Sprintf("N%d", k), Tags: []string{"pat:3", nameTag(n1), nameTag(n2), nameTag(n3)}, Scope: "S-name3"}, decl)
				k++
				decl = fmt.Sprintf("type N%d interface{ M(%s, %s, %s) (string, error) }", k,
					paramDecl(n1, "string", named), paramDecl(n2, "string", named), paramDecl(n3, "string", named))
				p.add(IfaceCase{Name: fmt.Sprintf("N%d", k), Tags: []string{"pat:3s", nameTag(n1), nameTag(n2), nameTag(n3)}, Scope: "S-name3"}, decl)
				k++
			}
		}
	}
	return p.pkgs
}

// import selection alphabet for S-imp.
var impPool = []string{
	"~/a/foo", "~/b/foo", "~/c/afoo", "~/x/sync", "~/d/bar", "~/e/go-foo", "~/e/foo", "~/v1/api", "~/v2/api",
	"~/1st/log", "~/2nd/log", "~/dep/time", "~/yaml.v2", "~/Upper/Case", "~/names/s", "~/names/err", "~/names/mock",
	"~/kw/type", "~/names/fooMoqParam", "~/apps/v1beta1", "time", "sync", "text/template", "html/template",
}

// scopeImp: all ordered selections of 1..k packages from the pool; each selection is
// realised as the parameter types of methods A, B, C, D (method order = arrival order at
// the import registry, because go/types sorts methods by name). Each source file imports
// one package of the selection (unaliased), so same-named packages can coexist; alias
// modes add source-level aliases.
// impPkg realises one ordered selection of packages as a source package: one file per
// import (so same-named packages can be imported unaliased), method A uses the first
// package, B the second, ... (go/types sorts methods by name, so this is the order in which
// the packages reach the import registry).
func impPkg(dir string, sel []string, mode string) *SrcPkg {
	sp := &SrcPkg{Dir: dir, Name: "src"}
	var methods []string
	var tags []string
	for i, key := range sel {
		alias := ""
		switch mode {
		case "alias-unique":
			alias = fmt.Sprintf("al%d", i)
		case "alias-clash": // alias equal to another selected package's name
			alias = depName(sel[(i+1)%len(sel)])
			if alias == depName(key) {
				alias = ""
			}
		case "alias-first":
			if i == 0 {
				alias = "first"
			}
		case "alias-as-first": // a later import carries an alias equal to the name the first, unaliased one keeps
			if i > 0 && depName(sel[0]) != depName(key) {
				alias = depName(sel[0])
			}
		case "alias-same": // every file uses the same alias for its (different) package
			alias = "model"
		case "alias-dirname":
			if b := strings.ToLower(key[strings.LastIndex(key, "/")+1:]); validIdent(b) && b != depName(key) {
				alias = b
			}
		}
		al := map[string]string{}
		if alias != "" {
			al[key] = alias
		}
		tn := "T"
		if std, ok := map[string]string{"time": "Time", "sync": "Locker", "text/template": "Template", "html/template": "Template"}[key]; ok {
			tn = std
		}
		var extra []Imp
		switch mode {
		case "dot-first": // the first package is dot-imported by the source file
			if i == 0 && strings.HasPrefix(key, "~/") {
				al[key] = "."
			}
		case "blank-extra": // every file also blank-imports a package the interface does not use
			extra = []Imp{{Key: "~/q/one", Alias: "_"}}
		}
		sp.Files = append(sp.Files, SrcFile{Name: fmt.Sprintf("f%d.go", i), Aliases: al, Extra: extra,
			Decls: fmt.Sprintf("type X%d = @{%s}.%s\n", i, key, tn)})
		methods = append(methods, fmt.Sprintf("%c(@{%s}.%s)", 'A'+i, key, tn))
		tags = append(tags, "imp:"+key)
	}
	tags = append(tags, "impmode:"+mode, "impseq:"+strings.Join(sel, ","))
	var embeds []string
	for i := range sel {
		sp.Files[i].Decls += fmt.Sprintf("type E%d interface{ %s }\n", i, methods[i])
		embeds = append(embeds, fmt.Sprintf("E%d", i))
	}
	sp.Files = append(sp.Files, SrcFile{Name: "iface.go", Decls: "type Itf interface{ " + strings.Join(embeds, "; ") + " }\n"})
	sp.Ifaces = []IfaceCase{{Name: "Itf", Src: "type Itf interface{ " + strings.Join(methods, "; ") + " }  // one file per import, mode " + mode, Tags: tags, Scope: "S-imp"}}
	return sp
}

// scopeImp: all ordered selections of 1..k packages from the pool × source alias modes.
func scopeImp(k int, aliasModes bool) []*SrcPkg {
	var pkgs []*SrcPkg
	idx := 0
	var sel []string
	var rec func()
	emit := func(mode string) {
		pfx := "imp"
		if !aliasModes {
			pfx = fmt.Sprintf("impp%d", k)
		}
		pkgs = append(pkgs, impPkg(fmt.Sprintf("s/%s_%d", pfx, idx), append([]string{}, sel...), mode))
		idx++
	}
	rec = func() {
		if len(sel) > 0 {
			emit("plain")
			if aliasModes {
				emit("alias-unique")
				if len(sel) > 1 {
					emit("alias-clash")
				}
				emit("alias-first")
				emit("alias-dirname")
				emit("dot-first")
				emit("blank-extra")
				if len(sel) > 1 {
					emit("alias-as-first")
					emit("alias-same")
				}
			}
		}
		if len(sel) == k {
			return
		}
		for _, key := range impPool {
			dup := false
			for _, s := range sel {
				if s == key {
					dup = true
				}
			}
			if dup {
				continue
			}
			sel = append(sel, key)
			rec()
			sel = sel[:len(sel)-1]
		}
	}
	rec()
	return pkgs
}

// scopeGen: generic interfaces.
func scopeGen() []*SrcPkg {
	p := newPacker("gen", 40)
	spellings := []string{"T", "t", "id", "Key", "sync", "mock"}
	type cons struct{ src, tag string }
	constraints := []cons{
		{"any", "any"}, {"comparable", "comparable"}, {"@{fmt}.Stringer", "fmt.Stringer"}, {"Str", "localmethod"},
		{"~int | ~string", "union-basic"}, {"~string | ~[]@{~/a/foo}.T", "tilde-dep-slice"}, {"interface{ comparable; ~int | ~string }", "cmp+union"}, {"interface{ Num; ~int }", "named+core"}, {"int | string", "union-plain"}, {"Num", "named-union"}, {"@{~/a/foo}.Ord", "dep-named-union"},
		{"@{~/a/foo}.T | @{~/a/foo}.B", "dep-union"}, {"interface{ comparable; String() string }", "cmp+method"},
		{"interface{ ~int; String() string }", "core+method"}, {"[]int | []string", "union-slices"}, {"~[]byte", "tilde-slice"},
		{"interface{ Loc }", "embeds-named-noniface"}, {"interface{ @{time}.Duration }", "embeds-std-noniface"},
		{"LocI", "local-iface"}, {"@{~/a/foo}.I", "dep-iface"}, {"Loc | Int", "local-union"}, {"interface{ *Loc }", "ptr-term"},
	}
	uses := []struct{ sig, tag string }{
		{"M(x %[1]s) %[1]s", "param+result"}, {"M(xs []%[1]s) map[string]%[1]s", "slice,mapval"},
		{"M(b Box[%[1]s]) @{~/b/foo}.G[%[1]s]", "generic-inst"}, {"M(f func(%[1]s) %[1]s, rest ...%[1]s)", "func,variadic"},
		{"M(%[1]s) (%[1]s, error)", "unnamed"},
		{"M(b @{~/b/foo}.G[@{~/b/foo}.G[@{~/a/foo}.T]], t %[1]s) Box[Box[%[1]s]]", "nested-inst"},
	}
	k := 0
	for _, sp := range spellings {
		for _, c := range constraints {
			for ui, u := range uses {
				// full product only for the canonical spelling; other spellings use the first two uses
				if sp != "T" && ui > 1 && ui != 4 && !(ui == 5 && sp == "Key") {
					continue
				}
				if (sp == "mock" || sp == "sync") && (c.tag != "any" || ui > 0) {
					continue // spellings that collide with generated identifiers: one witness each
				}
				if sp == "foo" && (strings.Contains(c.src, "/foo}") || strings.Contains(u.sig, "/foo}")) {
					continue // the type parameter would shadow the package it is constrained by: not valid Go
				}
				sig := fmt.Sprintf(u.sig, sp)
				decl := fmt.Sprintf("type G%d[%s %s] interface{ %s }", k, sp, c.src, sig)
				p.add(IfaceCase{Name: fmt.Sprintf("G%d", k), Tags: []string{"tparam:" + sp, "constraint:" + c.tag, "use:" + u.tag}, Scope: "S-gen"}, decl)
				k++
			}
		}
	}
	// two type parameters
	two := []struct{ decl, tag string }{
		{"[K comparable, V any] interface{ Get(k K) (V, bool); Put(k K, v V) }", "K comparable,V any"},
		{"[T any, S any] interface{ Get(T) (S, error); Put(T, S) }", "T,S any"},
		{"[T, S any] interface{ Conv(T) S }", "grouped"},
		{"[S ~[]E, E any] interface{ Each(s S, f func(E)) }", "S ~[]E"},
		{"[T @{~/a/foo}.Ord, U @{~/b/foo}.Ord] interface{ M(T) U }", "two dep constraints same name"},
		{"[T any, t any] interface{ M(T) t }", "T and t"},
		{"[K comparable, V Num] interface{ Sum(m map[K]V) V }", "map K V"},
		{"[T any] interface{ M(T T) }", "param named like tparam"},
		{"[T any] interface{ LocI; M(T) }", "embed plain"},
		{"[T any] interface{ Gb[T]; N(T) }", "embed generic"},
		{"[T any] interface{ M() Box[T]; N(Box[Box[T]]) }", "nested inst"},
		{"[T @{fmt}.Stringer] interface{ M(T) string }", "stringer"},
		{"[T interface{ *Loc | *Int }] interface{ M(T) }", "ptr union inline"},
		{"[T Ordered[T]] interface{ Sort(xs []T) T }", "self-referential constraint"},
		{"[A Ordered[B], B Ordered[A]] interface{ Cmp(a A, b B) bool }", "mutually referential constraints"},
		{"[A any, B any, C any] interface{ M(A, B) C; N(C) (A, B) }", "three"},
	}
	for _, t := range two {
		decl := fmt.Sprintf("type G%d%s", k, t.decl)
		p.add(IfaceCase{Name: fmt.Sprintf("G%d", k), Tags: []string{"gen2:" + t.tag}, Scope: "S-gen"}, decl)
		k++
	}
	// instantiated aliases / non-generic interfaces embedding instances
	inst := []string{
		"type GI%d interface{ Gb[int] }", "type GI%d interface{ Gb[@{~/a/foo}.T]; X() }", "type GI%d = Gb[string]",
		"type GI%d interface{ M(Box[int]) Box[@{~/a/foo}.T] }",
	}
	for i, s := range inst {
		p.add(IfaceCase{Name: fmt.Sprintf("GI%d", i), Tags: []string{"gen:inst"}, Scope: "S-gen"}, fmt.Sprintf(s, i))
	}
	return p.pkgs
}

// scopeEmbed: embedded / aliased / transitively imported interfaces, empty interface,
// duplicate methods via embedding.
func scopeEmbed() []*SrcPkg {
	p := newPacker("embed", 80)
	decls := []string{
		"type Em0 interface{}",
		"type Em1 interface{ LocI }",
		"type Em2 interface{ @{~/a/foo}.I }",
		"type Em3 interface{ @{~/a/foo}.I; LocI }",
		"type Em4 interface{ @{~/a/foo}.I; Do2(@{~/b/foo}.T) }",
		"type Em5 = LocI",
		"type Em6 = @{~/a/foo}.I",
		"type Em7 Em1",
		"type Em8 interface{ Em1; Em3 }",
		"type Em9 interface{ @{io}.ReadWriteCloser }",
		"type Em10 interface{ @{net/http}.ResponseWriter; @{io}.Closer }",
		"type Em11 interface{ @{context}.Context }",
		"type Em12 interface{ error }",
		"type Em13 interface{ @{fmt}.Stringer; error }",
		"type Em14 interface{ Em12; Error() string }",
		"type Em15 interface{ @{sort}.Interface }",
		"type Em16 interface{ @{~/a/foo}.I; @{~/b/foo}.I2 }",
		"type Em17 @{~/a/foo}.I",
		"type Em18 interface{ M(LocI) Em1 }",
		"type Em19 interface{ M(Em19) Em19 }",
		"type Em20 interface{ M(interface{ Em1 }) }",
		"type Em21 any",
		"type Em22 = any",
		"type Em23 = interface{ M(int) }",
		"type Em24 interface{ @{net/http}.Handler }",
		"type Em25 interface{ @{net/http}.RoundTripper; @{net/http}.Handler }",
		"type Em26 interface{ A(); a2(); B() }",
		"type Em27 interface{ @{~/q/tri}.Tri }",
		"type Em28 interface{ @{~/q/tri}.Tri; Other(x @{~/e/foo}.T) }",
	}
	for i, d := range decls {
		name := fmt.Sprintf("Em%d", i)
		ic := IfaceCase{Name: name, Tags: []string{"embed:" + d}, Scope: "S-embed"}
		if strings.Contains(d, "I2") {
			continue // b/foo has no I2; skip (kept to keep numbering stable)
		}
		if strings.Contains(d, "a2()") {
			ic.InPlaceOnly = true // a sealed interface can only be mocked inside its package
		}
		p.add(ic, d)
	}
	return p.pkgs
}

// The representative set R: one shape per constructor / naming class / generic kind,
// used for the full 192-configuration product (S-cfg) and by the dynamic engines.
func scopeCfg() []*SrcPkg {
	p := newPacker("cfg", 100)
	decls := []string{
		"type R0 interface{ M() }",
		"type R1 interface{ M(a int, b string) (int, error); N(xs ...int) }",
		"type R2 interface{ M(Loc) *Loc; N(x LocI) }",
		"type R3 interface{ M(@{~/a/foo}.T) @{~/b/foo}.T }",
		"type R4 interface{ M(ctx @{context}.Context, req *@{net/http}.Request) (@{net/http}.ResponseWriter, error) }",
		"type R5 interface{ M(m map[@{~/a/foo}.T][]*@{~/b/foo}.T, ch <-chan Loc) }",
		"type R6 interface{ M(f func(@{~/a/foo}.T) Loc, rest ...@{~/a/foo}.I) }",
		"type R7 interface{ M(s struct{ F @{~/a/foo}.T; G Loc }) interface{ X(Loc) } }",
		"type R8 interface{ M(string, string, int, error, []byte) (string, error) }",
		"type R9 interface{ M(foo @{~/a/foo}.T, sync int) (s string, err error) }",
		"type R10[T any] interface{ M(T) T; N(x []T) map[string]T }",
		"type R11[K comparable, V any] interface{ Get(k K) (V, bool); Put(k K, v V) }",
		"type R12[T Num] interface{ Sum(xs ...T) T }",
		"type R13[T @{fmt}.Stringer] interface{ M(T, Loc) @{~/a/foo}.T }",
		"type R14 interface{ LocI; @{~/a/foo}.I }",
		"type R15 interface{}",
		"type R16 = LocI",
		"type R17 interface{ M(Box[@{~/a/foo}.T]) @{~/b/foo}.G[Loc] }",
		"type R18 interface{ M(t @{~/dep/time}.T, u @{time}.Time) }",
		"type R19 interface{ M(a [3]Loc, b chan<- *Loc, c *[]Loc) ([]Loc, [2]error) }",
		"type R20 interface{ M(_ int, _ string) (_ error) }",
		"type R21 interface{ M(id int, url string, httpClient *@{net/http}.Client) }",
		"type R22 interface{ One(); Two(x int); Three(y string) error }",
		"type R23 interface{ M(x @{~/names/s}.T, s string) }",
		"type R24 interface{ M(e @{~/a/foo}.E, f @{~/a/foo}.F, a @{~/a/foo}.A) LocAlias }",
		"type R25 interface{ @{io}.ReadWriter }",
		"type R26 interface{ M(t @{text/template}.Template, h @{html/template}.Template) }",
		"type R27 interface{ M(r *@{math/rand}.Rand, w func(@{io}.Reader) @{io}.Writer) }",
		"type R28 interface{ M(v1 @{~/v1/api}.T, v2 @{~/v2/api}.T) }",
		"type R29 interface{ M(y @{~/yaml.v2}.T, c @{~/Upper/Case}.T, k @{~/kw/type}.T) }",
		"type R30 interface{ M(fn func(), ifaceVal interface{}, val struct{}) }",
		"type R31 interface{ M(func(), interface{}, struct{}, func()) }",
		"type R32 interface{ M(err error) (err2 error) }",
		"type R33 interface{ M(error, error) (error, error) }",
		"type R34 interface{ M(String, Int, Error) }",
		"type R35 interface{ Ünï(ö int, λ string) (é string, ñ error) }",
		"type R36 interface{ M(a, b, c, d, e, f, g, h int, i, j string, k ...float64) (r1, r2, r3 int, err error) }",
		"type R37 interface{ M(m map[string]map[@{~/a/foo}.T][]chan<- func(...*@{~/b/foo}.T) (<-chan Loc, error)) }",
	}
	for i, d := range decls {
		p.add(IfaceCase{Name: fmt.Sprintf("R%d", i), Tags: []string{"rep"}, Scope: "S-cfg"}, d)
	}
	return p.pkgs
}

// scopeList: ordered lists of 1..3 arguments from a pool of 6 interfaces with different
// import needs (declared in different files so same-named imports coexist).
type listCase struct {
	Dir  string
	Args []string // interface names, possibly with :Custom
}

func scopeListPkg() *SrcPkg {
	sp := &SrcPkg{Dir: "s/list_0", Name: "src"}
	sp.Files = []SrcFile{
		{Name: "a.go", Decls: "type LA interface{ M(afoo int, x @{~/a/foo}.T) }\n\ntype LD interface{ D(@{~/a/foo}.T) @{~/a/foo}.T }\n"},
		{Name: "b.go", Decls: "type LB interface{ N(y @{~/b/foo}.T) }\n"},
		{Name: "k.go", Decls: "type LK[K @{~/a/foo}.Ord] interface{ Key(k K) K }\n\ntype LM[K @{~/a/foo}.I] interface{ Use(k K) }\n\ntype LV interface{ V(n int, xs ...@{~/a/foo}.T) []@{~/a/foo}.T }\n"},
		{Name: "p.go", Decls: "type LP interface{ @{~/a/foo}.Getter[int] }\n\ntype LQ interface{ @{~/a/foo}.Getter[string]; Other() }\n"},
		{Name: "r.go", Decls: "type RA interface{ ResetGetCalls(); Get2() }\n\ntype RB interface{ Get() int }\n"},
		{Name: "c.go", Decls: "type LC interface{ P(s string, t @{time}.Time) error }\n\ntype LE[T any] interface{ Q(T) (T, error) }\n\ntype LF interface{ R(Loc) }\n\ntype LZ interface{}\n\ntype LG = interface{ Do(int) }\n\ntype LH = interface{ Do(s string) error }\n"},
	}
	for _, n := range []string{"LA", "LB", "LC", "LD", "LE", "LF", "LG", "LH", "LZ", "LK", "LM", "LV", "RA", "RB", "LP", "LQ"} {
		sp.Ifaces = append(sp.Ifaces, IfaceCase{Name: n, Scope: "S-list"})
	}
	return sp
}

func scopeListArgs() [][]string {
	pool := []string{"LA", "LB", "LC", "LD", "LE", "LF", "LZ", "LK"}
	var out [][]string
	var cur []string
	var rec func(custom bool)
	rec = func(custom bool) {
		if len(cur) > 0 {
			out = append(out, append([]string{}, cur...))
		}
		if len(cur) == 3 {
			return
		}
		for _, n := range pool {
			dup := false
			for _, c := range cur {
				if strings.SplitN(c, ":", 2)[0] == n {
					dup = true
				}
			}
			if dup {
				continue
			}
			cur = append(cur, n)
			rec(custom)
			cur = cur[:len(cur)-1]
		}
	}
	rec(false)
	// custom-name variants: every list with its middle/first element renamed
	n := len(out)
	for i := 0; i < n; i++ {
		l := append([]string{}, out[i]...)
		j := len(l) / 2
		l[j] = l[j] + ":Custom" + l[j]
		out = append(out, l)
	}
	// a generic interface whose constraint is a method interface of a package that is re-aliased
	// by a later argument (and the other order)
	out = append(out, []string{"LM"}, []string{"LM", "LB"}, []string{"LB", "LM"}, []string{"LM", "LC", "LB"}, []string{"LK", "LM", "LB"})
	out = append(out, []string{"LV"}, []string{"LV", "LB"}, []string{"LB", "LV"}, []string{"LV", "LC", "LB"}, []string{"RA"}, []string{"RB"}, []string{"RA", "RB"}, []string{"RB", "RA"})
	out = append(out, []string{"LP"}, []string{"LQ"}, []string{"LP", "LQ"}, []string{"LQ", "LP"}, []string{"LP", "LD", "LQ"})
	// duplicates of the same interface under two mock names
	out = append(out, []string{"LA", "LA:Second"}, []string{"LF:One", "LF:Two", "LB"})
	// interfaces declared as aliases of interface literals whose methods share a name
	out = append(out, []string{"LG"}, []string{"LH"}, []string{"LG", "LH"}, []string{"LH", "LG"}, []string{"LA", "LH", "LG"}, []string{"LG", "LB", "LH"})
	return out
}

func sortedKeys(m map[string]bool) []string {
	var ks []string
	for k := range m {
		ks = append(ks, k)
	}
	sort.Strings(ks)
	return ks
}

// scopeMirror: source files whose aliases mirror the names moq itself would generate for
// the *other* same-named packages, at each level of the alias generator; the second file
// re-uses one of these aliases for yet another package.
func scopeMirror() ([]*SrcPkg, []*Case) {
	var pkgs []*SrcPkg
	var cases []*Case
	levels := [][2]string{{"bfoo", "afoo"}, {"mbfoo", "mafoo"}, {"examplecommbfoo", "examplecommafoo"}}
	for i, lv := range levels {
		sp := &SrcPkg{Dir: fmt.Sprintf("s/mirror_%d", i), Name: "src"}
		sp.Files = []SrcFile{
			{Name: "f1.go", Aliases: map[string]string{"~/a/foo": lv[0], "~/b/foo": lv[1], "~/d/bar": "bfoo2"},
				Decls: "type MI interface{ M(x @{~/a/foo}.T, y @{~/b/foo}.T, w @{~/d/bar}.T) }\n"},
			{Name: "f2.go", Aliases: map[string]string{"~/e/foo": lv[1]}, Decls: "type MJ interface{ N(z @{~/e/foo}.T) }\n"},
		}
		if i > 0 {
			sp.Files[0].Aliases["~/d/bar"] = "bfoo"
		}
		for _, n := range []string{"MI", "MJ"} {
			sp.Ifaces = append(sp.Ifaces, IfaceCase{Name: n, Scope: "S-mirror", Tags: []string{"mirror:" + lv[0]}})
		}
		pkgs = append(pkgs, sp)
		for _, l := range [][]string{{"MI", "MJ"}, {"MJ", "MI"}, {"MI"}, {"MJ"}} {
			for _, c := range []Cfg{{}, {Pkg: 2, Stub: true}} {
				cases = append(cases, &Case{Dir: sp.Dir, Ifaces: l, Cfg: c, Scope: "S-mirror"})
			}
		}
	}
	return pkgs, cases
}

// scopeSrcSync: a source package that is itself called sync.
func scopeSrcSync() []*SrcPkg {
	return []*SrcPkg{{Dir: "s/srcsync_0", Name: "sync", Files: []SrcFile{{Name: "l.go", Decls: "type Locker2 interface{ Lock(l Loc) Loc; Unlock() }\n\ntype Plain interface{ P(int) string }\n\ntype Dep interface{ D(@{~/a/foo}.T) }\n"}},
		Ifaces: []IfaceCase{{Name: "Locker2", Scope: "S-srcsync", Tags: []string{"srcpkg:sync"}}, {Name: "Plain", Scope: "S-srcsync", Tags: []string{"srcpkg:sync"}}, {Name: "Dep", Scope: "S-srcsync", Tags: []string{"srcpkg:sync"}}}}}
}
